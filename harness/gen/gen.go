// Package gen holds the seeded generators shared by the checks: templates drawn from the
// element pool and typed values with boundary pools. Values are payload bytes in
// refipfix's encoding (no variable-length prefix).
package gen

import (
	"math"
	"math/rand/v2"

	"verif/harness/refipfix"
	"verif/harness/regtable"
)

// VarLens are the variable-length boundaries named by the properties.
var VarLens = []int{0, 1, 2, 254, 255, 256, 257, 1000}

// Template draws n distinct elements from pool. At least one element of every
// supported type shows up over many draws because pool holds all of them.
func Template(r *rand.Rand, pool []regtable.Elem, n int) []regtable.Elem {
	if n > len(pool) {
		n = len(pool)
	}
	seen := map[int]bool{}
	out := make([]regtable.Elem, 0, n)
	for len(out) < n {
		i := r.IntN(len(pool))
		if seen[i] {
			continue
		}
		seen[i] = true
		out = append(out, pool[i])
	}
	return out
}

func Widths(t []regtable.Elem) []uint16 {
	w := make([]uint16, len(t))
	for i, e := range t {
		w[i] = e.Len
	}
	return w
}

func Fields(t []regtable.Elem) []refipfix.Field {
	f := make([]refipfix.Field, len(t))
	for i, e := range t {
		f[i] = e.Field()
	}
	return f
}

var u64pool = []uint64{0, 1, 2, 0x7f, 0x80, 0xff, 0x100, 0x7fff, 0x8000, 0xffff, 0x10000, 0x7fffffff, 0x80000000, 0xffffffff,
	0x100000000, 1 << 53, 0x7fffffffffffffff, 0x8000000000000000, 0xffffffffffffffff, 0x0102030405060708, 0xfffefdfcfbfaf9f8}

var f32pool = []uint32{0, 0x80000000, 0x7f800000, 0xff800000, 0x7fc00000, 0x7fc00001, 0xffc12345, 0x7f800001, 1, 0x007fffff, 0x00800000, 0x7f7fffff, 0x3f800000, 0xbf800000}
var f64pool = []uint64{0, 0x8000000000000000, 0x7ff0000000000000, 0xfff0000000000000, 0x7ff8000000000000, 0x7ff8000000000001, 0xfff8123456789abc,
	0x7ff0000000000001, 1, 0x000fffffffffffff, 0x0010000000000000, 0x7fefffffffffffff, 0x3ff0000000000000, 0xbff0000000000000}

// IsBoundary reports (for evidence) whether a payload came from a boundary pool.
func uintVal(r *rand.Rand, n int) uint64 {
	var v uint64
	switch r.IntN(3) {
	case 0:
		v = u64pool[r.IntN(len(u64pool))]
	default:
		v = r.Uint64()
		if r.IntN(4) == 0 {
			v >>= uint(r.IntN(64))
		}
	}
	if n < 8 {
		v &= (uint64(1) << (8 * uint(n))) - 1
	}
	return v
}

// Bytes returns n PRNG bytes, sometimes with hostile content (NUL, 0xFF, invalid UTF-8).
func Bytes(r *rand.Rand, n int) []byte {
	b := make([]byte, n)
	mode := r.IntN(4)
	for i := range b {
		switch mode {
		case 0:
			b[i] = byte('a' + r.IntN(26))
		case 1:
			b[i] = byte(r.IntN(256))
		case 2:
			b[i] = []byte{0, 0xff, 0xc3, 0x28, 0x80, '"', '\n', 'x'}[r.IntN(8)]
		default:
			b[i] = byte(32 + r.IntN(95))
		}
	}
	return b
}

// VarLen picks a payload length for a variable-length element, at most max.
func VarLen(r *rand.Rand, max int) int {
	var l int
	switch r.IntN(10) {
	case 0, 1, 2:
		l = VarLens[r.IntN(len(VarLens))]
	case 3:
		l = r.IntN(2000)
	case 4:
		if max > 2000 {
			l = r.IntN(max + 1)
		} else {
			l = r.IntN(40)
		}
	default:
		l = r.IntN(40)
	}
	if l > max {
		l = max
	}
	if l < 0 {
		l = 0
	}
	return l
}

// Value draws a well-typed payload for the element. maxVar bounds variable-length payloads.
func Value(r *rand.Rand, e regtable.Elem, maxVar int) []byte {
	switch e.Type {
	case refipfix.U8, refipfix.I8:
		return refipfix.PU(1, uintVal(r, 1))
	case refipfix.U16, refipfix.I16:
		return refipfix.PU(2, uintVal(r, 2))
	case refipfix.U32, refipfix.I32, refipfix.DTSec:
		return refipfix.PU(4, uintVal(r, 4))
	case refipfix.U64, refipfix.I64, refipfix.DTMilli:
		return refipfix.PU(8, uintVal(r, 8))
	case refipfix.F32:
		if r.IntN(2) == 0 {
			return refipfix.PU(4, uint64(f32pool[r.IntN(len(f32pool))]))
		}
		return refipfix.PU(4, uint64(r.Uint32()))
	case refipfix.F64:
		if r.IntN(2) == 0 {
			return refipfix.PU(8, f64pool[r.IntN(len(f64pool))])
		}
		return refipfix.PU(8, r.Uint64())
	case refipfix.Bool:
		return refipfix.PBool(r.IntN(2) == 0)
	case refipfix.Mac:
		return Bytes(r, 6)
	case refipfix.IPv4:
		switch r.IntN(4) {
		case 0:
			return [][]byte{{0, 0, 0, 0}, {255, 255, 255, 255}, {127, 0, 0, 1}, {10, 0, 0, 1}}[r.IntN(4)]
		}
		return refipfix.PU(4, uint64(r.Uint32()))
	case refipfix.IPv6:
		switch r.IntN(5) {
		case 0:
			return make([]byte, 16)
		case 1:
			// v4-mapped v6 address: a legitimate ipv6Address value
			b := make([]byte, 16)
			b[10], b[11] = 0xff, 0xff
			copy(b[12:], refipfix.PU(4, uint64(r.Uint32())))
			return b
		case 2:
			b := make([]byte, 16)
			for i := range b {
				b[i] = 0xff
			}
			return b
		}
		b := make([]byte, 16)
		for i := range b {
			b[i] = byte(r.IntN(256))
		}
		return b
	case refipfix.String, refipfix.OctetArray:
		if e.Len != refipfix.VarLen {
			return Bytes(r, int(e.Len))
		}
		b := Bytes(r, VarLen(r, maxVar))
		return b
	}
	panic("gen.Value: unsupported type " + e.Type.String())
}

// EncLen is refipfix's own length model for one value at a template width.
func EncLen(width uint16, payload []byte) int {
	if width != refipfix.VarLen {
		return int(width)
	}
	if len(payload) < 255 {
		return 1 + len(payload)
	}
	return 3 + len(payload)
}

// One draws exactly one record; the budget is raised to what the template needs at the least, so
// the result is never missing (a template of wide fixed-length fields can exceed a small budget).
func One(r *rand.Rand, t []regtable.Elem, budget int) [][]byte {
	if m := refipfix.MinRecordLen(Widths(t)) + 8; budget < m {
		budget = m
	}
	for {
		if recs := Records(r, t, 1, budget); len(recs) == 1 {
			return recs[0]
		}
		budget *= 2
	}
}

// Records draws nrec records for the template; the total encoded size of all records is
// kept at or below budget bytes by shortening variable-length payloads.
func Records(r *rand.Rand, t []regtable.Elem, nrec int, budget int) [][][]byte {
	recs := make([][][]byte, 0, nrec)
	used := 0
	for i := 0; i < nrec; i++ {
		rec := make([][]byte, len(t))
		size := 0
		remainingMin := refipfix.MinRecordLen(Widths(t))
		for j, e := range t {
			if e.Len == refipfix.VarLen {
				remainingMin--
			} else {
				remainingMin -= int(e.Len)
			}
			maxVar := budget - used - size - remainingMin - 3
			if maxVar > 65535 {
				maxVar = 65535
			}
			if maxVar < 0 {
				maxVar = 0
			}
			rec[j] = Value(r, e, maxVar)
			size += EncLen(e.Len, rec[j])
		}
		if used+size > budget {
			break
		}
		used += size
		recs = append(recs, rec)
	}
	return recs
}

var _ = math.MaxInt

// Package refipfix is an independent reading of RFC 7011 (sections 3, 3.1, 3.3, 3.4,
// 6.1, 7 and appendix A): message framing, header, set, template record and data
// record layout, and value encodings. It imports nothing from go-ipfix and only
// encoding/binary, math, bytes, errors, fmt from the standard library. It is the
// "decoder that shares no code with the library" used as an oracle.
package refipfix

import (
	"bytes"
	"encoding/binary"
	"errors"
	"fmt"
	"math"
)

const VarLen uint16 = 65535

// Type is an RFC 7012 abstract data type.
type Type uint8

const (
	OctetArray Type = iota
	U8
	U16
	U32
	U64
	I8
	I16
	I32
	I64
	F32
	F64
	Bool
	Mac
	String
	DTSec
	DTMilli
	DTMicro
	DTNano
	IPv4
	IPv6
	BasicList
	SubTemplateList
	SubTemplateMultiList
	Invalid Type = 255
)

var typeNames = map[Type]string{OctetArray: "octetArray", U8: "unsigned8", U16: "unsigned16", U32: "unsigned32", U64: "unsigned64",
	I8: "signed8", I16: "signed16", I32: "signed32", I64: "signed64", F32: "float32", F64: "float64", Bool: "boolean", Mac: "macAddress",
	String: "string", DTSec: "dateTimeSeconds", DTMilli: "dateTimeMilliseconds", DTMicro: "dateTimeMicroseconds", DTNano: "dateTimeNanoseconds",
	IPv4: "ipv4Address", IPv6: "ipv6Address", BasicList: "basicList", SubTemplateList: "subTemplateList", SubTemplateMultiList: "subTemplateMultiList", Invalid: "invalid"}

func (t Type) String() string {
	if s, ok := typeNames[t]; ok {
		return s
	}
	return fmt.Sprintf("type%d", uint8(t))
}

// NaturalLen is the full-size encoding length of a type (RFC 7011 section 6.1), VarLen for
// the variable-length ones.
func NaturalLen(t Type) uint16 {
	switch t {
	case U8, I8, Bool:
		return 1
	case U16, I16:
		return 2
	case U32, I32, F32, DTSec, IPv4:
		return 4
	case U64, I64, F64, DTMilli, DTMicro, DTNano:
		return 8
	case Mac:
		return 6
	case IPv6:
		return 16
	}
	return VarLen
}

// Field is a field specifier as it appears in a template record.
type Field struct {
	ID  uint16 // without the enterprise bit
	Ent uint32 // 0 = IANA
	Len uint16
}

type Header struct {
	Version    uint16
	Length     uint16
	ExportTime uint32
	Seq        uint32
	Domain     uint32
}

const HeaderLen = 16
const SetHeaderLen = 4

func ParseHeader(b []byte) (Header, error) {
	if len(b) < HeaderLen {
		return Header{}, fmt.Errorf("message shorter than the 16-byte header: %d", len(b))
	}
	return Header{
		Version:    binary.BigEndian.Uint16(b[0:2]),
		Length:     binary.BigEndian.Uint16(b[2:4]),
		ExportTime: binary.BigEndian.Uint32(b[4:8]),
		Seq:        binary.BigEndian.Uint32(b[8:12]),
		Domain:     binary.BigEndian.Uint32(b[12:16]),
	}, nil
}

// Msg is a message holding exactly one set, which is all the library emits.
type Msg struct {
	Header
	SetID  uint16
	SetLen uint16
	Body   []byte // set content after the 4-byte set header
}

// ParseMessage is strict: version 10, header length equal to len(b), exactly one set
// whose length covers the rest of the message.
func ParseMessage(b []byte) (*Msg, error) {
	h, err := ParseHeader(b)
	if err != nil {
		return nil, err
	}
	if h.Version != 10 {
		return nil, fmt.Errorf("version %d != 10", h.Version)
	}
	if int(h.Length) != len(b) {
		return nil, fmt.Errorf("header length %d != bytes presented %d", h.Length, len(b))
	}
	if len(b) < HeaderLen+SetHeaderLen {
		return nil, fmt.Errorf("no room for a set header: %d bytes", len(b))
	}
	m := &Msg{Header: h}
	m.SetID = binary.BigEndian.Uint16(b[16:18])
	m.SetLen = binary.BigEndian.Uint16(b[18:20])
	if int(m.SetLen) != len(b)-HeaderLen {
		return nil, fmt.Errorf("set length %d does not cover the rest of the message (%d)", m.SetLen, len(b)-HeaderLen)
	}
	if m.SetID < 2 || (m.SetID > 3 && m.SetID < 256) {
		return nil, fmt.Errorf("reserved set id %d", m.SetID)
	}
	m.Body = b[20:]
	return m, nil
}

// Frame cuts a TCP byte stream into messages at the header length fields. It stops at
// the first header it cannot use (length < 16) and returns the unconsumed tail.
func Frame(stream []byte) (msgs [][]byte, tail []byte) {
	for len(stream) >= 4 {
		l := int(binary.BigEndian.Uint16(stream[2:4]))
		if l < HeaderLen || l > len(stream) {
			break
		}
		msgs = append(msgs, stream[:l])
		stream = stream[l:]
	}
	return msgs, stream
}

var ErrShort = errors.New("truncated")

// ParseTemplateRecord parses one template record (id, field count, specifiers) from
// the start of body and returns what follows it.
func ParseTemplateRecord(body []byte) (tid uint16, fields []Field, rest []byte, err error) {
	if len(body) < 4 {
		return 0, nil, nil, fmt.Errorf("template record header: %w", ErrShort)
	}
	tid = binary.BigEndian.Uint16(body[0:2])
	n := int(binary.BigEndian.Uint16(body[2:4]))
	p := 4
	fields = make([]Field, 0, n)
	for i := 0; i < n; i++ {
		if len(body)-p < 4 {
			return tid, fields, nil, fmt.Errorf("field specifier %d: %w", i, ErrShort)
		}
		raw := binary.BigEndian.Uint16(body[p : p+2])
		f := Field{ID: raw & 0x7fff, Len: binary.BigEndian.Uint16(body[p+2 : p+4])}
		p += 4
		if raw&0x8000 != 0 {
			if len(body)-p < 4 {
				return tid, fields, nil, fmt.Errorf("enterprise number of field %d: %w", i, ErrShort)
			}
			f.Ent = binary.BigEndian.Uint32(body[p : p+4])
			p += 4
			if f.Ent == 0 {
				// enterprise bit set with enterprise number 0: representable on the wire, flagged for callers
				err = nil
			}
		}
		fields = append(fields, f)
	}
	return tid, fields, body[p:], nil
}

// MinRecordLen is the length of the shortest possible data record for the widths.
func MinRecordLen(widths []uint16) int {
	n := 0
	for _, w := range widths {
		if w == VarLen {
			n++
		} else {
			n += int(w)
		}
	}
	return n
}

// SplitRecords walks a data set body record by record. ok=false means the body cannot be
// parsed under the widths (a field does not find its full width, or the shortest record
// is 0 bytes long and the body is not empty). Leftover bytes shorter than the shortest
// record are padding. Each value is returned without its variable-length prefix.
func SplitRecords(body []byte, widths []uint16) (recs [][][]byte, padding int, ok bool, why string) {
	min := MinRecordLen(widths)
	p := 0
	for {
		rem := len(body) - p
		if rem == 0 {
			return recs, 0, true, ""
		}
		if min == 0 {
			return recs, rem, false, "shortest record is 0 bytes but the body is not empty"
		}
		if rem < min {
			return recs, rem, true, ""
		}
		rec := make([][]byte, 0, len(widths))
		for i, w := range widths {
			var l int
			if w == VarLen {
				if len(body)-p < 1 {
					return recs, rem, false, fmt.Sprintf("record %d field %d: no length prefix", len(recs), i)
				}
				l = int(body[p])
				p++
				if l == 255 {
					if len(body)-p < 2 {
						return recs, rem, false, fmt.Sprintf("record %d field %d: truncated 3-byte length prefix", len(recs), i)
					}
					l = int(binary.BigEndian.Uint16(body[p : p+2]))
					p += 2
				}
			} else {
				l = int(w)
			}
			if len(body)-p < l {
				return recs, rem, false, fmt.Sprintf("record %d field %d: needs %d bytes, %d left", len(recs), i, l, len(body)-p)
			}
			rec = append(rec, body[p:p+l])
			p += l
		}
		recs = append(recs, rec)
	}
}

// SameBody compares the content of a captured set with the reference encoding of what the
// application supplied. RFC 7011 3.3.2 lets an exporter pad a set: zero octets after the last
// record, fewer than the shortest record the template allows (minRec; 4 for template sets, a
// template record header). Padding is therefore not a difference; anything else is.
func SameBody(got, want []byte, minRec int) bool {
	if len(got) < len(want) || !bytes.Equal(got[:len(want)], want) {
		return false
	}
	pad := got[len(want):]
	if len(pad) >= minRec && len(pad) > 0 {
		return false
	}
	for _, b := range pad {
		if b != 0 {
			return false
		}
	}
	return true
}

// ---- encoders ----

func PutHeader(b []byte, h Header) {
	binary.BigEndian.PutUint16(b[0:2], h.Version)
	binary.BigEndian.PutUint16(b[2:4], h.Length)
	binary.BigEndian.PutUint32(b[4:8], h.ExportTime)
	binary.BigEndian.PutUint32(b[8:12], h.Seq)
	binary.BigEndian.PutUint32(b[12:16], h.Domain)
}

// BuildMessage wraps a set body into a one-set message with correct length fields.
func BuildMessage(domain, seq, exportTime uint32, setID uint16, body []byte) []byte {
	b := make([]byte, HeaderLen+SetHeaderLen+len(body))
	if exportTime == 1 {
		// the harnesses' conventional "any export time": a pure function of the content, so that the export times of
		// a connection's messages are neither constant nor monotonic (exporters restart, clocks are stepped back)
		h := uint32(2166136261)
		mix := func(x byte) { h = (h ^ uint32(x)) * 16777619 }
		for _, x := range []byte{byte(domain), byte(domain >> 8), byte(domain >> 16), byte(domain >> 24), byte(setID), byte(setID >> 8)} {
			mix(x)
		}
		for _, x := range body {
			mix(x)
		}
		exportTime = 1500000000 + h%300000000
	}
	PutHeader(b, Header{Version: 10, Length: uint16(len(b)), ExportTime: exportTime, Seq: seq, Domain: domain})
	binary.BigEndian.PutUint16(b[16:18], setID)
	binary.BigEndian.PutUint16(b[18:20], uint16(SetHeaderLen+len(body)))
	copy(b[20:], body)
	return b
}

// EncodeTemplateRecord encodes (id, count, specifiers).
func EncodeTemplateRecord(tid uint16, fields []Field) []byte {
	b := make([]byte, 4, 4+8*len(fields))
	binary.BigEndian.PutUint16(b[0:2], tid)
	binary.BigEndian.PutUint16(b[2:4], uint16(len(fields)))
	for _, f := range fields {
		var s [8]byte
		id := f.ID & 0x7fff
		if f.Ent != 0 {
			id |= 0x8000
		}
		binary.BigEndian.PutUint16(s[0:2], id)
		binary.BigEndian.PutUint16(s[2:4], f.Len)
		if f.Ent != 0 {
			binary.BigEndian.PutUint32(s[4:8], f.Ent)
			b = append(b, s[:8]...)
		} else {
			b = append(b, s[:4]...)
		}
	}
	return b
}

// EncodeField encodes one value (payload bytes) at a template width: raw for a fixed
// width (payload must have that length), length-prefixed for variable length.
func EncodeField(width uint16, payload []byte) ([]byte, error) {
	if width != VarLen {
		if len(payload) != int(width) {
			return nil, fmt.Errorf("payload of %d bytes for a %d-byte field", len(payload), width)
		}
		return append([]byte(nil), payload...), nil
	}
	if len(payload) > 65535 {
		return nil, fmt.Errorf("payload of %d bytes cannot be length-prefixed", len(payload))
	}
	if len(payload) < 255 {
		return append([]byte{byte(len(payload))}, payload...), nil
	}
	b := make([]byte, 3, 3+len(payload))
	b[0] = 255
	binary.BigEndian.PutUint16(b[1:3], uint16(len(payload)))
	return append(b, payload...), nil
}

// EncodeRecord concatenates the encoded fields of one record.
func EncodeRecord(widths []uint16, payloads [][]byte) ([]byte, error) {
	if len(widths) != len(payloads) {
		return nil, fmt.Errorf("%d payloads for %d fields", len(payloads), len(widths))
	}
	var out []byte
	for i := range widths {
		f, err := EncodeField(widths[i], payloads[i])
		if err != nil {
			return nil, fmt.Errorf("field %d: %v", i, err)
		}
		out = append(out, f...)
	}
	return out, nil
}

// Value payload helpers (big-endian, two's complement, IEEE 754; boolean 1=true 2=false).
func PU(n int, v uint64) []byte {
	b := make([]byte, n)
	for i := n - 1; i >= 0; i-- {
		b[i] = byte(v)
		v >>= 8
	}
	return b
}

func GU(b []byte) uint64 {
	var v uint64
	for _, x := range b {
		v = v<<8 | uint64(x)
	}
	return v
}

func PF32(f float32) []byte { return PU(4, uint64(math.Float32bits(f))) }
func PF64(f float64) []byte { return PU(8, math.Float64bits(f)) }
func PBool(v bool) []byte {
	if v {
		return []byte{1}
	}
	return []byte{2}
}

package agg

import (
	"fmt"
	"net"
	"reflect"
)

// NodeState is what the statement defines for one reporting node of a flow.
type NodeState struct {
	Seen   bool
	End    uint32
	Total  [NC]uint64
	Delta  [NC]uint64 // sum since the last reset
	Thr    uint64
	RevThr uint64
	TCP    string
}

// Flow is the reference aggregate of one 5-tuple.
type Flow struct {
	Key    Key
	Corr   bool // needs correlation: source and destination node report separately
	N      [2]NodeState
	End    uint32
	Holder [2]bool // which node(s) reported the latest end time (both on a tie)
	// every value ever reported per total counter (for the skewed family's accept-set)
	Reported [NC]map[uint64]bool
	// Coherent: records arrived in globally increasing end-time order with globally
	// non-decreasing totals, so that "latest value" has a single reading.
	Coherent bool
	lastEnd  uint32
}

func NewFlow(k Key, corr bool) *Flow {
	f := &Flow{Key: k, Corr: corr, Coherent: true}
	for i := range f.Reported {
		f.Reported[i] = map[uint64]bool{}
	}
	return f
}

func thr(growth uint64, dt uint32) uint64 {
	if dt == 0 {
		return 0
	}
	return growth * 8 / uint64(dt)
}

// Apply folds one record into the aggregate, per the statement of C05.
func (f *Flow) Apply(r Rec, first bool) {
	slots := []int{0, 1}
	if f.Corr {
		if r.Node == 'S' {
			slots = []int{0}
		} else {
			slots = []int{1}
		}
	}
	for i := 0; i < NC; i++ {
		if !first && f.Coherent {
			for _, s := range []int{0, 1} {
				if f.N[s].Seen && r.Total[i] < f.N[s].Total[i] {
					f.Coherent = false
				}
			}
		}
		f.Reported[i][r.Total[i]] = true
	}
	if !first && r.End <= f.lastEnd {
		f.Coherent = false
	}
	f.lastEnd = r.End
	for _, s := range slots {
		n := &f.N[s]
		prevEnd := r.Start
		if n.Seen {
			prevEnd = n.End
		}
		n.Thr = thr(r.Total[Oct]-n.Total[Oct], r.End-prevEnd)
		n.RevThr = thr(r.Total[RevOct]-n.Total[RevOct], r.End-prevEnd)
		for i := 0; i < NC; i++ {
			n.Total[i] = r.Total[i]
			n.Delta[i] += r.Delta[i]
		}
		n.End = r.End
		n.Seen = true
		n.TCP = r.TCPState
	}
	switch {
	case first || r.End > f.End:
		f.End = r.End
		f.Holder = [2]bool{}
		for _, s := range slots {
			f.Holder[s] = true
		}
	case r.End == f.End:
		for _, s := range slots {
			f.Holder[s] = true
		}
	}
}

// Reset clears delta and throughput fields only.
func (f *Flow) Reset() {
	for s := range f.N {
		f.N[s].Delta = [NC]uint64{}
		f.N[s].Thr, f.N[s].RevThr = 0, 0
	}
}

func u64(m map[string]interface{}, name string) (uint64, bool) {
	v, ok := m[name]
	if !ok {
		return 0, false
	}
	x, ok := v.(uint64)
	return x, ok
}

func u32(m map[string]interface{}, name string) (uint32, bool) {
	v, ok := m[name]
	if !ok {
		return 0, false
	}
	x, ok := v.(uint32)
	return x, ok
}

var nodeSuffix = [2]string{"FromSourceNode", "FromDestinationNode"}

// Check compares the aggregated record (as returned by GetRecords) with the model. It
// returns "" or (class, explanation).
func (f *Flow) Check(m map[string]interface{}) (string, string) {
	for s := 0; s < 2; s++ {
		n := f.N[s]
		if v, ok := u32(m, "flowEndSeconds"+nodeSuffix[s]); !ok || v != n.End {
			return "node-end", fmt.Sprintf("flowEndSeconds%s = %v, expected %d", nodeSuffix[s], m["flowEndSeconds"+nodeSuffix[s]], n.End)
		}
		for i := 0; i < NC; i++ {
			if v, ok := u64(m, totalNames[i]+nodeSuffix[s]); !ok || v != n.Total[i] {
				return "node-total", fmt.Sprintf("%s%s = %v, expected the node's latest value %d", totalNames[i], nodeSuffix[s], m[totalNames[i]+nodeSuffix[s]], n.Total[i])
			}
			if v, ok := u64(m, deltaNames[i]+nodeSuffix[s]); !ok || v != n.Delta[i] {
				return "node-delta-sum", fmt.Sprintf("%s%s = %v, expected the sum since the last reset %d", deltaNames[i], nodeSuffix[s], m[deltaNames[i]+nodeSuffix[s]], n.Delta[i])
			}
		}
		if v, ok := u64(m, "throughput"+nodeSuffix[s]); !ok || v != n.Thr {
			return "node-throughput", fmt.Sprintf("throughput%s = %v, expected %d", nodeSuffix[s], m["throughput"+nodeSuffix[s]], n.Thr)
		}
		if v, ok := u64(m, "reverseThroughput"+nodeSuffix[s]); !ok || v != n.RevThr {
			return "node-throughput", fmt.Sprintf("reverseThroughput%s = %v, expected %d", nodeSuffix[s], m["reverseThroughput"+nodeSuffix[s]], n.RevThr)
		}
	}
	if v, ok := u32(m, "flowEndSeconds"); !ok || v != f.End {
		return "end-time", fmt.Sprintf("flowEndSeconds = %v, expected the latest end time %d", m["flowEndSeconds"], f.End)
	}
	// common fields follow the node(s) holding the latest end time
	matchHolder := func(get func(n NodeState) uint64, name string) bool {
		v, ok := u64(m, name)
		if !ok {
			return false
		}
		for s := 0; s < 2; s++ {
			if f.Holder[s] && get(f.N[s]) == v {
				return true
			}
		}
		return false
	}
	for i := 0; i < NC; i++ {
		i := i
		if !matchHolder(func(n NodeState) uint64 { return n.Delta[i] }, deltaNames[i]) {
			return "common-delta", fmt.Sprintf("%s = %v, expected the delta sum of the node that reported the latest end time (src %d dst %d holder %v)", deltaNames[i], m[deltaNames[i]], f.N[0].Delta[i], f.N[1].Delta[i], f.Holder)
		}
		v, ok := u64(m, totalNames[i])
		if !ok {
			return "common-total", totalNames[i] + " missing"
		}
		if f.Coherent {
			if !matchHolder(func(n NodeState) uint64 { return n.Total[i] }, totalNames[i]) {
				return "common-total", fmt.Sprintf("%s = %d, expected the latest value (src %d dst %d holder %v)", totalNames[i], v, f.N[0].Total[i], f.N[1].Total[i], f.Holder)
			}
		} else {
			if !f.Reported[i][v] {
				return "common-total", fmt.Sprintf("%s = %d was never reported by any record of the flow", totalNames[i], v)
			}
			okH := false
			for s := 0; s < 2; s++ {
				if f.Holder[s] && v >= f.N[s].Total[i] {
					okH = true
				}
			}
			if !okH {
				return "common-total", fmt.Sprintf("%s = %d is older than the total last reported by the node holding the latest end time", totalNames[i], v)
			}
		}
	}
	if !matchHolder(func(n NodeState) uint64 { return n.Thr }, "throughput") {
		return "common-throughput", fmt.Sprintf("throughput = %v, expected that of the node with the latest end time (src %d dst %d holder %v)", m["throughput"], f.N[0].Thr, f.N[1].Thr, f.Holder)
	}
	if !matchHolder(func(n NodeState) uint64 { return n.RevThr }, "reverseThroughput") {
		return "common-throughput", fmt.Sprintf("reverseThroughput = %v, expected that of the node with the latest end time", m["reverseThroughput"])
	}
	tcp, _ := m["tcpState"].(string)
	okT := false
	for s := 0; s < 2; s++ {
		if f.Holder[s] && f.N[s].TCP == tcp {
			okT = true
		}
	}
	if !okT {
		return "common-tcpstate", fmt.Sprintf("tcpState = %q, expected that of the node with the latest end time", tcp)
	}
	// identity of the flow
	if v, ok := m["sourceTransportPort"].(uint16); !ok || v != f.Key.SPort {
		return "flow-identity", "sourceTransportPort changed"
	}
	if v, ok := m["destinationTransportPort"].(uint16); !ok || v != f.Key.DPort {
		return "flow-identity", "destinationTransportPort changed"
	}
	an := "sourceIPv4Address"
	if f.Key.V6 {
		an = "sourceIPv6Address"
	}
	if ip, ok := m[an].(net.IP); !ok || !ip.Equal(net.ParseIP(f.Key.Src)) {
		return "flow-identity", an + " changed"
	}
	return "", ""
}

// ResetTouches lists the fields a reset may change.
func ResetTouches(name string) bool {
	for i := 0; i < NC; i++ {
		if name == deltaNames[i] || name == deltaNames[i]+nodeSuffix[0] || name == deltaNames[i]+nodeSuffix[1] {
			return true
		}
	}
	switch name {
	case "throughput", "reverseThroughput", "throughputFromSourceNode", "throughputFromDestinationNode", "reverseThroughputFromSourceNode", "reverseThroughputFromDestinationNode":
		return true
	}
	return false
}

// SameExcept compares two element maps; only names for which may() is true may differ.
func SameExcept(a, b map[string]interface{}, may func(string) bool) (string, bool) {
	for k, va := range a {
		vb, ok := b[k]
		if !ok {
			return k, false
		}
		if may != nil && may(k) {
			continue
		}
		if !reflect.DeepEqual(va, vb) {
			return k, false
		}
	}
	for k := range b {
		if _, ok := a[k]; !ok {
			return k, false
		}
	}
	return "", true
}

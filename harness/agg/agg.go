// Package agg builds flow records for the aggregation process the way the collector
// delivers them, and holds the reference aggregator (written from the property statements,
// not from aggregateRecords) used by C05, C06, C07 and C13.
package agg

import (
	"fmt"
	"net"
	"time"

	"github.com/vmware/go-ipfix/pkg/entities"
	"github.com/vmware/go-ipfix/pkg/intermediate"
	"github.com/vmware/go-ipfix/pkg/registry"
)

const (
	IANA   = uint32(0)
	Rev    = uint32(29305)
	Antrea = uint32(56506)
)

// Counter indexes. Totals and deltas come in the same four flavours.
const (
	Pkt = iota
	Oct
	RevPkt
	RevOct
	NC
)

var totalNames = [NC]string{"packetTotalCount", "octetTotalCount", "reversePacketTotalCount", "reverseOctetTotalCount"}
var deltaNames = [NC]string{"packetDeltaCount", "octetDeltaCount", "reversePacketDeltaCount", "reverseOctetDeltaCount"}

func TotalName(i int) string { return totalNames[i] }
func DeltaName(i int) string { return deltaNames[i] }

// CorrelateFields is the list given to the aggregation process (strings, u8, u16, signed32, IPv4, IPv6).
var CorrelateFields = []string{
	"sourcePodName", "sourcePodNamespace", "sourceNodeName",
	"destinationPodName", "destinationPodNamespace", "destinationNodeName",
	"destinationClusterIPv4", "destinationClusterIPv6", "destinationServicePort", "destinationServicePortName",
	"ingressNetworkPolicyName", "ingressNetworkPolicyNamespace", "ingressNetworkPolicyType", "ingressNetworkPolicyRulePriority",
	"egressNetworkPolicyName", "egressNetworkPolicyNamespace", "egressNetworkPolicyType", "egressNetworkPolicyRulePriority",
}

func Elements() *intermediate.AggregationElements {
	e := &intermediate.AggregationElements{
		NonStatsElements:              []string{"flowEndSeconds", "flowEndReason", "tcpState"},
		AntreaFlowEndSecondsElements:  []string{"flowEndSecondsFromSourceNode", "flowEndSecondsFromDestinationNode"},
		ThroughputElements:            []string{"throughput", "reverseThroughput"},
		SourceThroughputElements:      []string{"throughputFromSourceNode", "reverseThroughputFromSourceNode"},
		DestinationThroughputElements: []string{"throughputFromDestinationNode", "reverseThroughputFromDestinationNode"},
	}
	for i := 0; i < NC; i++ {
		for _, n := range []string{totalNames[i], deltaNames[i]} {
			e.StatsElements = append(e.StatsElements, n)
			e.AggregatedSourceStatsElements = append(e.AggregatedSourceStatsElements, n+"FromSourceNode")
			e.AggregatedDestinationStatsElements = append(e.AggregatedDestinationStatsElements, n+"FromDestinationNode")
		}
	}
	return e
}

// Key is a flow 5-tuple.
type Key struct {
	V6       bool
	Src, Dst string
	SPort    uint16
	DPort    uint16
	Proto    uint8
}

func (k Key) FlowKey() intermediate.FlowKey {
	return intermediate.FlowKey{SourceAddress: net.ParseIP(k.Src).String(), DestinationAddress: net.ParseIP(k.Dst).String(), Protocol: k.Proto, SourcePort: k.SPort, DestinationPort: k.DPort}
}

// Pool of 5-tuples: 3 IPv4, 3 IPv6, two differing only in one port.
var Keys = []Key{
	{false, "10.0.0.1", "10.0.0.2", 1234, 5678, 6},
	{false, "10.0.0.1", "10.0.0.2", 1234, 5679, 6},
	{false, "192.168.1.7", "10.0.0.2", 40000, 53, 17},
	{true, "2001:0:3238:dfe1:63::fefb", "2001:0:3238:dfe1:63::fefc", 1234, 5678, 6},
	{true, "2001:0:3238:dfe1:63::fefb", "2001:0:3238:dfe1:63::fefc", 1235, 5678, 6},
	{true, "fd00::1", "fd00::2", 443, 50000, 6},
	{false, "10.9.9.9", "10.8.8.8", 1, 2, 132},
	{false, "10.9.9.9", "10.8.8.8", 2, 1, 132},
}

// Rec is one flow record as an exporter on a node would report it.
type Rec struct {
	Key       Key
	Node      byte // 'S' source node, 'D' destination node, 'B' a flow that needs no correlation (one stream)
	FlowType  uint8
	Egress    uint8 // egressNetworkPolicyRuleAction
	Ingress   uint8
	Start     uint32
	End       uint32
	EndReason uint8
	TCPState  string
	Total     [NC]uint64
	Delta     [NC]uint64
	// correlated metadata as this node knows it
	Str map[string]string
	U8  map[string]uint8
	U16 map[string]uint16
	I32 map[string]int32
	IP  map[string]net.IP
	// Omit leaves elements out of the record altogether (a narrower template layout).
	Omit map[string]bool
	// Rotate moves the first Rotate elements to the end: the same fields in another order (template ids are
	// per exporter session - two nodes may use one id for different layouts).
	Rotate int
}

func ie(name string, ent uint32) *entities.InfoElement {
	e, err := registry.GetInfoElement(name, ent)
	if err != nil {
		panic(fmt.Sprintf("%s/%d: %v", name, ent, err))
	}
	return e
}

func entOf(name string) uint32 {
	switch name {
	case "reversePacketTotalCount", "reverseOctetTotalCount", "reversePacketDeltaCount", "reverseOctetDeltaCount":
		return Rev
	case "flowStartSeconds", "flowEndSeconds", "flowEndReason", "packetTotalCount", "packetDeltaCount", "octetTotalCount", "octetDeltaCount",
		"sourceIPv4Address", "destinationIPv4Address", "sourceIPv6Address", "destinationIPv6Address", "sourceTransportPort", "destinationTransportPort", "protocolIdentifier":
		return IANA
	}
	return Antrea
}

var strFields = []string{"sourcePodName", "sourcePodNamespace", "sourceNodeName", "destinationPodName", "destinationPodNamespace", "destinationNodeName",
	"destinationServicePortName", "ingressNetworkPolicyName", "ingressNetworkPolicyNamespace", "egressNetworkPolicyName", "egressNetworkPolicyNamespace"}
var u8Fields = []string{"ingressNetworkPolicyType", "egressNetworkPolicyType"}
var i32Fields = []string{"ingressNetworkPolicyRulePriority", "egressNetworkPolicyRulePriority"}

func StrFields() []string { return strFields }
func U8Fields() []string  { return u8Fields }
func I32Fields() []string { return i32Fields }

// Elements builds the element list of the record (the order a template would define).
func (r Rec) Elements() []entities.InfoElementWithValue {
	var el []entities.InfoElementWithValue
	if r.Key.V6 {
		el = append(el, entities.NewIPAddressInfoElement(ie("sourceIPv6Address", IANA), net.ParseIP(r.Key.Src)),
			entities.NewIPAddressInfoElement(ie("destinationIPv6Address", IANA), net.ParseIP(r.Key.Dst)))
	} else {
		el = append(el, entities.NewIPAddressInfoElement(ie("sourceIPv4Address", IANA), net.ParseIP(r.Key.Src).To4()),
			entities.NewIPAddressInfoElement(ie("destinationIPv4Address", IANA), net.ParseIP(r.Key.Dst).To4()))
	}
	el = append(el,
		entities.NewUnsigned16InfoElement(ie("sourceTransportPort", IANA), r.Key.SPort),
		entities.NewUnsigned16InfoElement(ie("destinationTransportPort", IANA), r.Key.DPort),
		entities.NewUnsigned8InfoElement(ie("protocolIdentifier", IANA), r.Key.Proto),
		entities.NewDateTimeSecondsInfoElement(ie("flowStartSeconds", IANA), r.Start),
		entities.NewDateTimeSecondsInfoElement(ie("flowEndSeconds", IANA), r.End),
		entities.NewUnsigned8InfoElement(ie("flowEndReason", IANA), r.EndReason),
	)
	for i := 0; i < NC; i++ {
		el = append(el, entities.NewUnsigned64InfoElement(ie(totalNames[i], entOf(totalNames[i])), r.Total[i]),
			entities.NewUnsigned64InfoElement(ie(deltaNames[i], entOf(deltaNames[i])), r.Delta[i]))
	}
	for _, n := range strFields {
		el = append(el, entities.NewStringInfoElement(ie(n, Antrea), r.Str[n]))
	}
	for _, n := range u8Fields {
		el = append(el, entities.NewUnsigned8InfoElement(ie(n, Antrea), r.U8[n]))
	}
	for _, n := range i32Fields {
		el = append(el, entities.NewSigned32InfoElement(ie(n, Antrea), r.I32[n]))
	}
	el = append(el, entities.NewUnsigned16InfoElement(ie("destinationServicePort", Antrea), r.U16["destinationServicePort"]))
	if r.Key.V6 {
		ip := r.IP["destinationClusterIPv6"]
		if ip == nil {
			ip = net.IPv6zero
		}
		el = append(el, entities.NewIPAddressInfoElement(ie("destinationClusterIPv6", Antrea), ip))
	} else {
		ip := r.IP["destinationClusterIPv4"]
		if ip == nil {
			ip = net.IPv4zero.To4()
		}
		el = append(el, entities.NewIPAddressInfoElement(ie("destinationClusterIPv4", Antrea), ip))
	}
	el = append(el,
		entities.NewUnsigned8InfoElement(ie("ingressNetworkPolicyRuleAction", Antrea), r.Ingress),
		entities.NewUnsigned8InfoElement(ie("egressNetworkPolicyRuleAction", Antrea), r.Egress),
		entities.NewStringInfoElement(ie("tcpState", Antrea), r.TCPState),
		entities.NewUnsigned8InfoElement(ie("flowType", Antrea), r.FlowType),
	)
	if len(r.Omit) > 0 {
		kept := el[:0:0]
		for _, e := range el {
			if !r.Omit[e.GetName()] {
				kept = append(kept, e)
			}
		}
		el = kept
	}
	if n := len(el); n > 0 && r.Rotate%n != 0 {
		k := r.Rotate % n
		el = append(append(el[:0:0], el[k:]...), el[:k]...)
	}
	return el
}

// Message wraps records into a decoded-style data message (what GetMsgChan() delivers).
func Message(recs ...Rec) *entities.Message {
	m := entities.NewMessage(true)
	m.SetVersion(10)
	m.SetObsDomainID(1)
	m.SetExportAddress("127.0.0.1")
	s := entities.NewSet(true)
	if err := s.PrepareSet(entities.Data, 256); err != nil {
		panic(err)
	}
	for _, r := range recs {
		if err := s.AddRecordWithExtraElements(r.Elements(), 32, 256); err != nil {
			panic(err)
		}
	}
	m.AddSet(s)
	return m
}

// NeedsCorrelation is the statement's rule: inter-node flows, unless denied at egress or
// rejected at ingress.
func NeedsCorrelation(flowType, egress, ingress uint8) bool {
	if flowType != 2 {
		return false
	}
	if egress == 2 || egress == 3 {
		return false
	}
	if ingress == 3 {
		return false
	}
	return true
}

// NewProcess creates an aggregation process with hour-scale timeouts (virtual time is
// driven through the VerifShiftDeadlines hook).
func NewProcess(active, inactive time.Duration, workers int, ch chan *entities.Message) *intermediate.AggregationProcess {
	if ch == nil {
		ch = make(chan *entities.Message)
	}
	ap, err := intermediate.InitAggregationProcess(intermediate.AggregationInput{
		MessageChan: ch, WorkerNum: workers, CorrelateFields: CorrelateFields, AggregateElements: Elements(),
		ActiveExpiryTimeout: active, InactiveExpiryTimeout: inactive,
	})
	if err != nil {
		panic(err)
	}
	return ap
}

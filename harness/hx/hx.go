// Package hx is the scaffolding shared by every check binary: it reads the run
// parameters from the environment, journals every case before it is executed,
// collects violations / counters / distinct-case hashes / samples and writes the
// batch result that the python front-end (../check) merges into the evidence file.
//
// A case is a pure function of (seed, tier, batch, nbatch, k): the front-end can
// therefore resume a batch after a crash (VERIF_START=k+1) and replay one case
// (VERIF_START=k VERIF_COUNT=1).
package hx

import (
	"encoding/binary"
	"encoding/json"
	"fmt"
	"hash/fnv"
	"math/rand/v2"
	"os"
	"path/filepath"
	"runtime/debug"
	"sort"
	"strconv"
	"sync"
	"time"
)

type Violation struct {
	Class  string `json:"class"`
	Msg    string `json:"msg"`
	Case   int    `json:"case"`
	Batch  int    `json:"batch"`
	Detail any    `json:"detail,omitempty"`
}

type Ctx struct {
	Prop   string
	Seed   uint64
	Tier   string
	Batch  int
	NBatch int
	Start  int
	Count  int // -1 = all
	Out    string
	Replay bool

	mu         sync.Mutex
	journal    *os.File
	violations []Violation
	vioByClass map[string]int
	counters   map[string]int64
	maxima     map[string]int64
	distinct   map[string]map[uint64]struct{}
	nontrivial map[uint64]struct{}
	samples    []any
	inconcl    []string
	evals      int64
	curCase    int
	t0         time.Time
	notes      map[string]any
	firstCase  any
}

func envInt(name string, def int) int {
	if v := os.Getenv(name); v != "" {
		n, err := strconv.Atoi(v)
		if err == nil {
			return n
		}
	}
	return def
}

// New builds the context from the environment.
func New(prop string) *Ctx {
	seed := uint64(1)
	if v := os.Getenv("VERIF_SEED"); v != "" {
		if n, err := strconv.ParseInt(v, 10, 64); err == nil {
			seed = uint64(n)
		}
	}
	tier := os.Getenv("VERIF_TIER")
	if tier != "thorough" {
		tier = "quick"
	}
	c := &Ctx{
		Prop: prop, Seed: seed, Tier: tier,
		Batch: envInt("VERIF_BATCH", 0), NBatch: envInt("VERIF_NBATCH", 1),
		Start: envInt("VERIF_START", 0), Count: envInt("VERIF_COUNT", -1),
		Out:        os.Getenv("VERIF_OUT"),
		Replay:     os.Getenv("VERIF_REPLAY") != "",
		vioByClass: map[string]int{}, counters: map[string]int64{}, maxima: map[string]int64{},
		distinct: map[string]map[uint64]struct{}{}, nontrivial: map[uint64]struct{}{},
		t0: time.Now(), notes: map[string]any{},
	}
	if c.Out == "" {
		c.Out = "."
	}
	os.MkdirAll(c.Out, 0o755)
	f, err := os.OpenFile(filepath.Join(c.Out, "journal.txt"), os.O_CREATE|os.O_WRONLY|os.O_APPEND, 0o644)
	if err == nil {
		c.journal = f
	}
	return c
}

func (c *Ctx) Thorough() bool { return c.Tier == "thorough" }

// Pick returns q in the quick tier and t in the thorough tier.
func (c *Ctx) Pick(q, t int) int {
	if c.Thorough() {
		return t
	}
	return q
}

// Rand returns the PRNG of case k (independent of every other case).
func (c *Ctx) Rand(k int, stream uint64) *rand.Rand {
	h := fnv.New64a()
	h.Write([]byte(c.Prop))
	var b [8]byte
	binary.LittleEndian.PutUint64(b[:], c.Seed)
	h.Write(b[:])
	binary.LittleEndian.PutUint64(b[:], uint64(c.Batch)<<32|uint64(c.NBatch))
	h.Write(b[:])
	s1 := h.Sum64()
	binary.LittleEndian.PutUint64(b[:], uint64(k))
	h.Write(b[:])
	binary.LittleEndian.PutUint64(b[:], stream)
	h.Write(b[:])
	return rand.New(rand.NewPCG(s1, h.Sum64()))
}

// Journal records, durably and before the case runs, what is about to be executed.
func (c *Ctx) Journal(k int, desc any) {
	c.mu.Lock()
	defer c.mu.Unlock()
	c.curCase = k
	if c.firstCase == nil {
		c.firstCase = map[string]any{"case": k, "input": desc}
	}
	if c.journal == nil {
		return
	}
	b, _ := json.Marshal(desc)
	if len(b) > 1<<18 {
		b = b[:1<<18]
	}
	fmt.Fprintf(c.journal, "%d %s\n", k, b)
}

// JournalSync forces the journal to disk (used before calls that may hang or crash hard).
func (c *Ctx) JournalSync() {
	if c.journal != nil {
		c.journal.Sync()
	}
}

func (c *Ctx) Eval(n int) {
	c.mu.Lock()
	c.evals += int64(n)
	c.mu.Unlock()
}

// Violation records a refuting observation. At most 20 per class are kept in
// full; all are counted.
func (c *Ctx) Violation(k int, class, msg string, detail any) {
	c.mu.Lock()
	defer c.mu.Unlock()
	c.vioByClass[class]++
	if c.vioByClass[class] <= 5 {
		c.violations = append(c.violations, Violation{Class: class, Msg: msg, Case: k, Batch: c.Batch, Detail: detail})
	}
}

func (c *Ctx) NumViolations() int {
	c.mu.Lock()
	defer c.mu.Unlock()
	n := 0
	for _, v := range c.vioByClass {
		n += v
	}
	return n
}

func (c *Ctx) Nontrivial(h uint64) {
	c.mu.Lock()
	c.nontrivial[h] = struct{}{}
	c.mu.Unlock()
}

func (c *Ctx) Distinct(set string, h uint64) {
	c.mu.Lock()
	m := c.distinct[set]
	if m == nil {
		m = map[uint64]struct{}{}
		c.distinct[set] = m
	}
	m[h] = struct{}{}
	c.mu.Unlock()
}

func (c *Ctx) Add(name string, n int64) {
	c.mu.Lock()
	c.counters[name] += n
	c.mu.Unlock()
}

func (c *Ctx) Max(name string, v int64) {
	c.mu.Lock()
	if v > c.maxima[name] {
		c.maxima[name] = v
	}
	c.mu.Unlock()
}

func (c *Ctx) Note(name string, v any) {
	c.mu.Lock()
	c.notes[name] = v
	c.mu.Unlock()
}

// Sample keeps up to max actual cases for the evidence file.
func (c *Ctx) Sample(max int, v any) {
	c.mu.Lock()
	if len(c.samples) < max {
		c.samples = append(c.samples, v)
	}
	c.mu.Unlock()
}

func (c *Ctx) Inconclusive(reason string) {
	c.mu.Lock()
	c.inconcl = append(c.inconcl, reason)
	c.mu.Unlock()
}

// Range returns the [from,to) slice of n cases this invocation has to run.
func (c *Ctx) Range(n int) (int, int) {
	from := c.Start
	to := n
	if c.Count >= 0 && from+c.Count < to {
		to = from + c.Count
	}
	if from > to {
		from = to
	}
	return from, to
}

// Finish writes result.json and the hash files.
func (c *Ctx) Finish() {
	c.mu.Lock()
	defer c.mu.Unlock()
	writeHashes := func(name string, m map[uint64]struct{}) {
		keys := make([]uint64, 0, len(m))
		for k := range m {
			keys = append(keys, k)
		}
		sort.Slice(keys, func(i, j int) bool { return keys[i] < keys[j] })
		buf := make([]byte, 8*len(keys))
		for i, k := range keys {
			binary.LittleEndian.PutUint64(buf[8*i:], k)
		}
		os.WriteFile(filepath.Join(c.Out, name), buf, 0o644)
	}
	// hash files are appended per (re)start index so that a resumed batch does not overwrite
	suffix := fmt.Sprintf(".%d", c.Start)
	writeHashes("nontrivial"+suffix+".h64", c.nontrivial)
	dcount := map[string]int{}
	for name, m := range c.distinct {
		writeHashes("distinct_"+name+suffix+".h64", m)
		dcount[name] = len(m)
	}
	if len(c.samples) == 0 && c.firstCase != nil {
		c.samples = append(c.samples, c.firstCase)
	}
	res := map[string]any{
		"prop": c.Prop, "seed": c.Seed, "tier": c.Tier, "batch": c.Batch, "nbatch": c.NBatch, "start": c.Start,
		"evaluations": c.evals, "nontrivial": len(c.nontrivial), "distinct": dcount,
		"violations": c.violations, "violation_counts": c.vioByClass,
		"counters": c.counters, "maxima": c.maxima, "samples": c.samples,
		"inconclusive": c.inconcl, "notes": c.notes, "wall_s": time.Since(c.t0).Seconds(),
	}
	b, _ := json.MarshalIndent(res, "", " ")
	os.WriteFile(filepath.Join(c.Out, "result"+suffix+".json"), b, 0o644)
	if c.journal != nil {
		c.journal.Close()
	}
}

// Guard runs f and converts a panic into a violation of class "panic:<where>".
// It returns true if f panicked.
func (c *Ctx) Guard(k int, where string, detail any, f func()) (panicked bool) {
	defer func() {
		if r := recover(); r != nil {
			panicked = true
			st := string(debug.Stack())
			if len(st) > 6000 {
				st = st[:6000]
			}
			c.Violation(k, "panic:"+where, fmt.Sprint(r), map[string]any{"input": detail, "stack": st})
		}
	}()
	f()
	return false
}

// H64 hashes anything printable into a 64-bit case identity.
func H64(parts ...any) uint64 {
	h := fnv.New64a()
	for _, p := range parts {
		switch v := p.(type) {
		case []byte:
			h.Write(v)
		case string:
			h.Write([]byte(v))
		default:
			fmt.Fprint(h, v)
		}
		h.Write([]byte{0})
	}
	return h.Sum64()
}

package hx

import (
	"fmt"
	"os"
	"runtime"
	"runtime/metrics"
	"sync"
	"syscall"
	"time"
)

// Watch is a CPU-time / heap-growth budget monitor for calls into the code under test. A
// call that exceeds a budget cannot be interrupted, so the monitor records the violation,
// writes the batch result and exits the process with status 3; the front-end resumes the
// batch after the offending case. CPU time (getrusage), not wall time, is measured, so
// machine load does not matter.
type Watch struct {
	c          *Ctx
	cpuBudget  time.Duration
	heapBudget uint64
	mu         sync.Mutex
	active     bool
	k          int
	where      string
	desc       any
	cpu0       time.Duration
	heap0      uint64
}

func processCPU() time.Duration {
	var ru syscall.Rusage
	syscall.Getrusage(syscall.RUSAGE_SELF, &ru)
	return time.Duration(ru.Utime.Nano() + ru.Stime.Nano())
}

func heapBytes() uint64 {
	s := []metrics.Sample{{Name: "/memory/classes/heap/objects:bytes"}}
	metrics.Read(s)
	if s[0].Value.Kind() == metrics.KindUint64 {
		return s[0].Value.Uint64()
	}
	return 0
}

func (c *Ctx) NewWatch(cpu time.Duration, heap uint64) *Watch {
	w := &Watch{c: c, cpuBudget: cpu, heapBudget: heap}
	go func() {
		for {
			time.Sleep(10 * time.Millisecond)
			w.mu.Lock()
			if !w.active {
				w.mu.Unlock()
				continue
			}
			cpu := processCPU() - w.cpu0
			hp := heapBytes()
			var grow uint64
			if hp > w.heap0 {
				grow = hp - w.heap0
			}
			k, where, desc := w.k, w.where, w.desc
			w.mu.Unlock()
			var class, msg string
			if cpu > w.cpuBudget {
				class, msg = "hang:cpu:"+where, fmt.Sprintf("one call consumed %.1f CPU-seconds (budget %.1f) and has not returned", cpu.Seconds(), w.cpuBudget.Seconds())
			} else if grow > w.heapBudget {
				class, msg = "hang:heap:"+where, fmt.Sprintf("heap grew by %d MiB during one call (budget %d MiB) and the call has not returned", grow>>20, w.heapBudget>>20)
			}
			if class != "" {
				buf := make([]byte, 1<<16)
				n := runtime.Stack(buf, true)
				st := string(buf[:n])
				if len(st) > 8000 {
					st = st[:8000]
				}
				c.Violation(k, class, msg, map[string]any{"input": desc, "goroutines": st})
				c.Finish()
				os.Exit(3)
			}
		}
	}()
	return w
}

func (w *Watch) Begin(k int, where string, desc any) {
	w.mu.Lock()
	w.active, w.k, w.where, w.desc = true, k, where, desc
	w.cpu0, w.heap0 = processCPU(), heapBytes()
	w.mu.Unlock()
}

func (w *Watch) End() {
	w.mu.Lock()
	if w.active {
		cpu := processCPU() - w.cpu0
		w.c.Max("max_cpu_us_per_call", int64(cpu/time.Microsecond))
	}
	w.active = false
	w.mu.Unlock()
}

// Package peers provides byte-recording raw TCP and UDP peers (the "collector side" of an
// exporter under test) and raw clients. They never interpret what they receive.
package peers

import (
	"net"
	"sync"
	"time"
)

// ConnRec records everything received on one accepted TCP connection.
type ConnRec struct {
	mu     sync.Mutex
	cond   *sync.Cond
	buf    []byte
	eof    bool
	err    error
	Conn   net.Conn
	Remote string
}

func (c *ConnRec) reader() {
	b := make([]byte, 65536)
	for {
		n, err := c.Conn.Read(b)
		c.mu.Lock()
		if n > 0 {
			c.buf = append(c.buf, b[:n]...)
		}
		if err != nil {
			c.eof = true
			c.err = err
		}
		c.cond.Broadcast()
		c.mu.Unlock()
		if err != nil {
			return
		}
	}
}

// WaitLen waits until at least n bytes have been received (or EOF / timeout) and returns
// a copy of everything received so far and whether n was reached.
func (c *ConnRec) WaitLen(n int, timeout time.Duration) ([]byte, bool) {
	deadline := time.Now().Add(timeout)
	timer := time.AfterFunc(timeout, func() {
		c.mu.Lock()
		c.cond.Broadcast()
		c.mu.Unlock()
	})
	defer timer.Stop()
	c.mu.Lock()
	defer c.mu.Unlock()
	for len(c.buf) < n && !c.eof && time.Now().Before(deadline) {
		c.cond.Wait()
	}
	return append([]byte(nil), c.buf...), len(c.buf) >= n
}

// TakeN waits until n bytes are buffered, removes them from the record and returns them. If they
// do not arrive it returns what is there (without removing it) and false.
func (c *ConnRec) TakeN(n int, timeout time.Duration) ([]byte, bool) {
	deadline := time.Now().Add(timeout)
	timer := time.AfterFunc(timeout, func() {
		c.mu.Lock()
		c.cond.Broadcast()
		c.mu.Unlock()
	})
	defer timer.Stop()
	c.mu.Lock()
	defer c.mu.Unlock()
	for len(c.buf) < n && !c.eof && time.Now().Before(deadline) {
		c.cond.Wait()
	}
	if len(c.buf) < n {
		return append([]byte(nil), c.buf...), false
	}
	out := append([]byte(nil), c.buf[:n]...)
	c.buf = append(c.buf[:0:0], c.buf[n:]...)
	return out, true
}

// TakeFramed removes and returns the next IPFIX message of the stream, cut at the length field of
// its own header (bytes 2..3), so that it does not depend on what the sender reported as written.
// A header announcing fewer than 16 bytes cannot be framed: everything buffered is returned. If
// hint (the sender's count) exceeds the announced length, the surplus is waited for briefly and,
// if it is there, returned with the message (the caller's parser then sees the disagreement).
// ok=false: the announced bytes did not arrive in time; what is there is returned, not removed.
func (c *ConnRec) TakeFramed(hint int, timeout time.Duration) ([]byte, bool) {
	hdr, ok := c.WaitLen(4, timeout)
	if !ok {
		return hdr, false
	}
	l := int(hdr[2])<<8 | int(hdr[3])
	if l < 16 {
		time.Sleep(20 * time.Millisecond)
		return c.TakeN(c.Len(), timeout)
	}
	if hint > l {
		if _, ok := c.WaitLen(hint, 300*time.Millisecond); ok {
			return c.TakeN(hint, timeout)
		}
	}
	return c.TakeN(l, timeout)
}

func (c *ConnRec) Bytes() []byte {
	c.mu.Lock()
	defer c.mu.Unlock()
	return append([]byte(nil), c.buf...)
}

func (c *ConnRec) Len() int {
	c.mu.Lock()
	defer c.mu.Unlock()
	return len(c.buf)
}

func (c *ConnRec) EOF() bool {
	c.mu.Lock()
	defer c.mu.Unlock()
	return c.eof
}

// WaitEOF waits until the remote side closed.
func (c *ConnRec) WaitEOF(timeout time.Duration) bool {
	deadline := time.Now().Add(timeout)
	timer := time.AfterFunc(timeout, func() {
		c.mu.Lock()
		c.cond.Broadcast()
		c.mu.Unlock()
	})
	defer timer.Stop()
	c.mu.Lock()
	defer c.mu.Unlock()
	for !c.eof && time.Now().Before(deadline) {
		c.cond.Wait()
	}
	return c.eof
}

// TCPPeer accepts connections and records their bytes.
type TCPPeer struct {
	Ln    net.Listener
	mu    sync.Mutex
	cond  *sync.Cond
	conns []*ConnRec
	wg    sync.WaitGroup
}

func NewTCPPeer(network, addr string) (*TCPPeer, error) {
	ln, err := net.Listen(network, addr)
	if err != nil {
		return nil, err
	}
	return NewTCPPeerOn(ln), nil
}

// NewTCPPeerOn records on an existing listener (e.g. a TLS listener).
func NewTCPPeerOn(ln net.Listener) *TCPPeer {
	p := &TCPPeer{Ln: ln}
	p.cond = sync.NewCond(&p.mu)
	p.wg.Add(1)
	go func() {
		defer p.wg.Done()
		for {
			conn, err := ln.Accept()
			if err != nil {
				return
			}
			cr := &ConnRec{Conn: conn, Remote: conn.RemoteAddr().String()}
			cr.cond = sync.NewCond(&cr.mu)
			p.mu.Lock()
			p.conns = append(p.conns, cr)
			p.cond.Broadcast()
			p.mu.Unlock()
			p.wg.Add(1)
			go func() {
				defer p.wg.Done()
				cr.reader()
			}()
		}
	}()
	return p
}

func (p *TCPPeer) Addr() string { return p.Ln.Addr().String() }

// WaitConn returns the i-th accepted connection.
func (p *TCPPeer) WaitConn(i int, timeout time.Duration) *ConnRec {
	deadline := time.Now().Add(timeout)
	timer := time.AfterFunc(timeout, func() {
		p.mu.Lock()
		p.cond.Broadcast()
		p.mu.Unlock()
	})
	defer timer.Stop()
	p.mu.Lock()
	defer p.mu.Unlock()
	for len(p.conns) <= i && time.Now().Before(deadline) {
		p.cond.Wait()
	}
	if len(p.conns) > i {
		return p.conns[i]
	}
	return nil
}

func (p *TCPPeer) NumConns() int {
	p.mu.Lock()
	defer p.mu.Unlock()
	return len(p.conns)
}

func (p *TCPPeer) Close() {
	p.Ln.Close()
	p.mu.Lock()
	for _, c := range p.conns {
		c.Conn.Close()
	}
	p.mu.Unlock()
	p.wg.Wait()
}

// Datagram is one received UDP datagram.
type Datagram struct {
	Data []byte
	From string
	At   time.Time
}

// UDPPeer records datagrams.
type UDPPeer struct {
	Conn *net.UDPConn
	mu   sync.Mutex
	cond *sync.Cond
	dgs  []Datagram
	done chan struct{}
}

func NewUDPPeer(network, addr string) (*UDPPeer, error) {
	ua, err := net.ResolveUDPAddr(network, addr)
	if err != nil {
		return nil, err
	}
	conn, err := net.ListenUDP(network, ua)
	if err != nil {
		return nil, err
	}
	conn.SetReadBuffer(8 << 20)
	p := &UDPPeer{Conn: conn, done: make(chan struct{})}
	p.cond = sync.NewCond(&p.mu)
	go func() {
		defer close(p.done)
		b := make([]byte, 70000)
		for {
			n, from, err := conn.ReadFromUDP(b)
			if err != nil {
				return
			}
			p.mu.Lock()
			p.dgs = append(p.dgs, Datagram{Data: append([]byte(nil), b[:n]...), From: from.String(), At: time.Now()})
			p.cond.Broadcast()
			p.mu.Unlock()
		}
	}()
	return p, nil
}

func (p *UDPPeer) Addr() string { return p.Conn.LocalAddr().String() }

// WaitCount waits until at least n datagrams were received; returns a copy of all.
func (p *UDPPeer) WaitCount(n int, timeout time.Duration) ([]Datagram, bool) {
	deadline := time.Now().Add(timeout)
	timer := time.AfterFunc(timeout, func() {
		p.mu.Lock()
		p.cond.Broadcast()
		p.mu.Unlock()
	})
	defer timer.Stop()
	p.mu.Lock()
	defer p.mu.Unlock()
	for len(p.dgs) < n && time.Now().Before(deadline) {
		p.cond.Wait()
	}
	return append([]Datagram(nil), p.dgs...), len(p.dgs) >= n
}

// TakeOne waits for the oldest datagram not yet taken, removes it and returns it.
func (p *UDPPeer) TakeOne(timeout time.Duration) ([]byte, bool) {
	deadline := time.Now().Add(timeout)
	timer := time.AfterFunc(timeout, func() {
		p.mu.Lock()
		p.cond.Broadcast()
		p.mu.Unlock()
	})
	defer timer.Stop()
	p.mu.Lock()
	defer p.mu.Unlock()
	for len(p.dgs) == 0 && time.Now().Before(deadline) {
		p.cond.Wait()
	}
	if len(p.dgs) == 0 {
		return nil, false
	}
	d := p.dgs[0].Data
	p.dgs[0] = Datagram{}
	p.dgs = p.dgs[1:]
	return d, true
}

func (p *UDPPeer) Count() int {
	p.mu.Lock()
	defer p.mu.Unlock()
	return len(p.dgs)
}

func (p *UDPPeer) All() []Datagram {
	p.mu.Lock()
	defer p.mu.Unlock()
	return append([]Datagram(nil), p.dgs...)
}

func (p *UDPPeer) Close() {
	p.Conn.Close()
	<-p.done
}

// Package certs is a small certificate factory (ECDSA P-256) for the encrypted-transport
// checks: CAs, server and client certificates with controlled validity and SANs.
package certs

import (
	"crypto/ecdsa"
	"crypto/elliptic"
	"crypto/rand"
	"crypto/x509"
	"crypto/x509/pkix"
	"encoding/pem"
	"math/big"
	"net"
	"time"
)

type Pair struct {
	CertPEM []byte
	KeyPEM  []byte
	Cert    *x509.Certificate
	Key     *ecdsa.PrivateKey
}

var serial int64 = 1000

func nextSerial() *big.Int {
	serial++
	return big.NewInt(serial)
}

func pemKey(k *ecdsa.PrivateKey) []byte {
	b, err := x509.MarshalECPrivateKey(k)
	if err != nil {
		panic(err)
	}
	return pem.EncodeToMemory(&pem.Block{Type: "EC PRIVATE KEY", Bytes: b})
}

// NewCA creates a self-signed CA.
func NewCA(cn string) *Pair {
	k, err := ecdsa.GenerateKey(elliptic.P256(), rand.Reader)
	if err != nil {
		panic(err)
	}
	tpl := &x509.Certificate{
		SerialNumber: nextSerial(), Subject: pkix.Name{CommonName: cn, Organization: []string{"verif"}},
		NotBefore: time.Now().Add(-time.Hour), NotAfter: time.Now().Add(48 * time.Hour),
		KeyUsage: x509.KeyUsageCertSign | x509.KeyUsageDigitalSignature, BasicConstraintsValid: true, IsCA: true,
	}
	der, err := x509.CreateCertificate(rand.Reader, tpl, tpl, &k.PublicKey, k)
	if err != nil {
		panic(err)
	}
	c, _ := x509.ParseCertificate(der)
	return &Pair{CertPEM: pem.EncodeToMemory(&pem.Block{Type: "CERTIFICATE", Bytes: der}), KeyPEM: pemKey(k), Cert: c, Key: k}
}

type Opts struct {
	CN        string
	DNS       []string
	IPs       []string
	NotBefore time.Time
	NotAfter  time.Time
	Client    bool // client-auth EKU instead of server-auth
	SelfSign  bool // ignore the CA: sign with the leaf's own key
}

// Issue creates a leaf certificate signed by ca (or self-signed).
func Issue(ca *Pair, o Opts) *Pair {
	k, err := ecdsa.GenerateKey(elliptic.P256(), rand.Reader)
	if err != nil {
		panic(err)
	}
	if o.NotBefore.IsZero() {
		o.NotBefore = time.Now().Add(-time.Hour)
	}
	if o.NotAfter.IsZero() {
		o.NotAfter = time.Now().Add(24 * time.Hour)
	}
	eku := x509.ExtKeyUsageServerAuth
	if o.Client {
		eku = x509.ExtKeyUsageClientAuth
	}
	tpl := &x509.Certificate{
		SerialNumber: nextSerial(), Subject: pkix.Name{CommonName: o.CN, Organization: []string{"verif"}},
		NotBefore: o.NotBefore, NotAfter: o.NotAfter,
		KeyUsage: x509.KeyUsageDigitalSignature, ExtKeyUsage: []x509.ExtKeyUsage{eku}, BasicConstraintsValid: true,
		DNSNames: o.DNS,
	}
	for _, ip := range o.IPs {
		tpl.IPAddresses = append(tpl.IPAddresses, net.ParseIP(ip))
	}
	parent, signer := tpl, k
	if !o.SelfSign {
		parent, signer = ca.Cert, ca.Key
	}
	der, err := x509.CreateCertificate(rand.Reader, tpl, parent, &k.PublicKey, signer)
	if err != nil {
		panic(err)
	}
	c, _ := x509.ParseCertificate(der)
	return &Pair{CertPEM: pem.EncodeToMemory(&pem.Block{Type: "CERTIFICATE", Bytes: der}), KeyPEM: pemKey(k), Cert: c, Key: k}
}

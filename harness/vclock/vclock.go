// Package vclock is a virtual clock implementing the collector's (unexported, exported
// through the verif hook) clock/timer interfaces with time.AfterFunc semantics:
//   - Stop on an armed timer disarms it and returns true; on a fired or stopped timer it
//     returns false and does NOT cancel a callback that is already pending or running;
//   - Reset re-arms the timer and returns whether it was armed.
//
// Advance moves time and turns due timers into *pending callbacks* that do not run by
// themselves. A pending callback is run in two steps so that the explorer can place other
// operations between "fired", "the callback read the clock" and "the callback finished":
//
//	Start(j)  starts callback j in its own goroutine and lets it run until it calls Now()
//	          (or until it returns, if it never does);
//	Finish(h) releases it and waits for it to return.
package vclock

import (
	"bytes"
	"runtime"
	"sort"
	"strconv"
	"sync"
	"time"
)

type Timer struct {
	c     *Clock
	ID    int
	f     func()
	armed bool
	when  time.Time
	// statistics for invariants
	Fires int
}

type Pending struct {
	T       *Timer
	FiredAt time.Time
	Due     time.Time
}

// Running is a callback started by Start and not yet finished.
type Running struct {
	P        Pending
	NowRead  time.Time // value returned to the callback's first Now() call
	ReadNow  bool      // the callback reached Now()
	release  chan struct{}
	done     chan struct{}
	reached  chan struct{}
	Finished bool
}

type Clock struct {
	mu      sync.Mutex
	now     time.Time
	nextID  int
	timers  []*Timer // every timer ever created
	pending []Pending
	running []*Running
	gated   map[int64]*Running // goroutine id -> running callback
}

func New(start time.Time) *Clock {
	return &Clock{now: start, gated: map[int64]*Running{}}
}

func goid() int64 {
	var buf [64]byte
	n := runtime.Stack(buf[:], false)
	// "goroutine 123 [running]:"
	f := bytes.Fields(buf[:n])
	if len(f) < 2 {
		return -1
	}
	id, _ := strconv.ParseInt(string(f[1]), 10, 64)
	return id
}

func (c *Clock) Now() time.Time {
	c.mu.Lock()
	if len(c.gated) > 0 {
		if r, ok := c.gated[goid()]; ok && !r.ReadNow {
			r.ReadNow = true
			r.NowRead = c.now
			t := c.now
			c.mu.Unlock()
			close(r.reached)
			<-r.release
			return t
		}
	}
	t := c.now
	c.mu.Unlock()
	return t
}

// PeekNow reads the time without any gating (for the harness).
func (c *Clock) PeekNow() time.Time {
	c.mu.Lock()
	defer c.mu.Unlock()
	return c.now
}

func (c *Clock) newTimer(d time.Duration, f func()) *Timer {
	c.mu.Lock()
	defer c.mu.Unlock()
	c.nextID++
	t := &Timer{c: c, ID: c.nextID, f: f, armed: true, when: c.now.Add(d)}
	c.timers = append(c.timers, t)
	return t
}

// AfterFuncTimer is AfterFunc returning the concrete type.
func (c *Clock) AfterFuncTimer(d time.Duration, f func()) *Timer { return c.newTimer(d, f) }

func (t *Timer) Stop() bool {
	t.c.mu.Lock()
	defer t.c.mu.Unlock()
	was := t.armed
	t.armed = false
	return was
}

func (t *Timer) Reset(d time.Duration) bool {
	t.c.mu.Lock()
	defer t.c.mu.Unlock()
	was := t.armed
	t.armed = true
	t.when = t.c.now.Add(d)
	return was
}

// Armed reports whether the timer is armed and when it is due.
func (t *Timer) Armed() (bool, time.Time) {
	t.c.mu.Lock()
	defer t.c.mu.Unlock()
	return t.armed, t.when
}

// Advance moves the clock and converts due timers into pending callbacks (in due order).
func (c *Clock) Advance(d time.Duration) int {
	c.mu.Lock()
	defer c.mu.Unlock()
	c.now = c.now.Add(d)
	var due []*Timer
	for _, t := range c.timers {
		if t.armed && !t.when.After(c.now) {
			due = append(due, t)
		}
	}
	sort.SliceStable(due, func(i, j int) bool { return due[i].when.Before(due[j].when) })
	for _, t := range due {
		t.armed = false
		t.Fires++
		c.pending = append(c.pending, Pending{T: t, FiredAt: c.now, Due: t.when})
	}
	return len(due)
}

func (c *Clock) NumPending() int {
	c.mu.Lock()
	defer c.mu.Unlock()
	return len(c.pending)
}

func (c *Clock) NumRunning() int {
	c.mu.Lock()
	defer c.mu.Unlock()
	return len(c.running)
}

// PendingFor reports whether a fired-but-not-finished callback exists for the timer.
func (c *Clock) InFlight(t *Timer) bool {
	c.mu.Lock()
	defer c.mu.Unlock()
	for _, p := range c.pending {
		if p.T == t {
			return true
		}
	}
	for _, r := range c.running {
		if r.P.T == t && !r.Finished {
			return true
		}
	}
	return false
}

// AllTimers lists every timer ever created, in creation order.
func (c *Clock) AllTimers() []*Timer {
	c.mu.Lock()
	defer c.mu.Unlock()
	return append([]*Timer(nil), c.timers...)
}

// ArmedTimers lists the armed timers.
func (c *Clock) ArmedTimers() []*Timer {
	c.mu.Lock()
	defer c.mu.Unlock()
	var out []*Timer
	for _, t := range c.timers {
		if t.armed {
			out = append(out, t)
		}
	}
	return out
}

// Start begins pending callback j (P1). It returns once the callback has either reached
// its first Now() call (and is parked there) or has returned.
func (c *Clock) Start(j int) *Running {
	c.mu.Lock()
	if j < 0 || j >= len(c.pending) {
		c.mu.Unlock()
		return nil
	}
	p := c.pending[j]
	c.pending = append(c.pending[:j:j], c.pending[j+1:]...)
	r := &Running{P: p, release: make(chan struct{}), done: make(chan struct{}), reached: make(chan struct{})}
	c.running = append(c.running, r)
	c.mu.Unlock()
	ready := make(chan struct{})
	go func() {
		id := goid()
		c.mu.Lock()
		c.gated[id] = r
		c.mu.Unlock()
		close(ready)
		p.T.f()
		c.mu.Lock()
		delete(c.gated, id)
		r.Finished = true
		c.mu.Unlock()
		close(r.done)
	}()
	<-ready
	select {
	case <-r.reached:
	case <-r.done:
	}
	return r
}

// Run executes pending callback j to completion without parking it at its clock read (for
// implementations that read the clock while holding the lock every other operation needs: there
// the placement "between the clock read and the end of the callback" does not exist). It returns
// nil if there is no such callback; Finished is false if it did not return within the watchdog.
func (c *Clock) Run(j int) *Running {
	c.mu.Lock()
	if j < 0 || j >= len(c.pending) {
		c.mu.Unlock()
		return nil
	}
	p := c.pending[j]
	c.pending = append(c.pending[:j:j], c.pending[j+1:]...)
	r := &Running{P: p, release: make(chan struct{}), done: make(chan struct{}), reached: make(chan struct{})}
	c.running = append(c.running, r)
	c.mu.Unlock()
	go func() {
		p.T.f()
		c.mu.Lock()
		r.Finished = true
		c.mu.Unlock()
		close(r.done)
	}()
	c.Finish(r)
	return r
}

// PendingList returns the fired, not yet started callbacks in firing order.
func (c *Clock) PendingList() []Pending {
	c.mu.Lock()
	defer c.mu.Unlock()
	return append([]Pending(nil), c.pending...)
}

// Finish releases a started callback (P2) and waits until it has returned. It returns
// false if the callback did not return within the (generous, wall-clock) watchdog.
func (c *Clock) Finish(r *Running) bool {
	select {
	case <-r.done:
	default:
		select {
		case <-r.release:
		default:
			close(r.release)
		}
	}
	select {
	case <-r.done:
	case <-time.After(30 * time.Second):
		return false
	}
	c.mu.Lock()
	for i, x := range c.running {
		if x == r {
			c.running = append(c.running[:i:i], c.running[i+1:]...)
			break
		}
	}
	c.mu.Unlock()
	return true
}

// RunningList returns the started, unfinished callbacks in start order.
func (c *Clock) RunningList() []*Running {
	c.mu.Lock()
	defer c.mu.Unlock()
	return append([]*Running(nil), c.running...)
}

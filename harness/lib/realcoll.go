package lib

import (
	"fmt"
	"sync"
	"time"

	"github.com/vmware/go-ipfix/pkg/collector"
	"github.com/vmware/go-ipfix/pkg/entities"

	"verif/harness/mirror"
)

// Delivery is one message taken from the collector's message channel.
type Delivery struct {
	Out  *mirror.Outcome
	Seq  uint32 // header sequence number (used by the harness as a per-connection counter)
	Addr string
	At   time.Time
	N    int // global delivery index
}

// Coll is a real collecting process (sockets, goroutines) with a consumer that records
// every delivered message per observation domain.
type Coll struct {
	CP       *collector.CollectingProcess
	mu       sync.Mutex
	cond     *sync.Cond
	byDomain map[uint32][]Delivery
	total    int
	startRet chan struct{}
	consDone chan struct{}
	stopCons chan struct{}
	Pause    func() // optional: called by the consumer before each receive (pacing perturbation)
	Keep     func(m *entities.Message) bool
}

// StartCollector starts cp.Start() in a goroutine and waits until the address is published
// (the only readiness signal the API offers).
func StartCollector(in collector.CollectorInput) (*Coll, error) {
	return StartCollectorPaced(in, nil)
}

// StartCollectorPaced is StartCollector with a consumer pacing function.
func StartCollectorPaced(in collector.CollectorInput, pause func()) (*Coll, error) {
	cp, err := collector.InitCollectingProcess(in)
	if err != nil {
		return nil, err
	}
	c := &Coll{CP: cp, byDomain: map[uint32][]Delivery{}, startRet: make(chan struct{}), consDone: make(chan struct{}), stopCons: make(chan struct{})}
	c.cond = sync.NewCond(&c.mu)
	c.Pause = pause
	go func() {
		defer close(c.startRet)
		cp.Start()
	}()
	go c.consume()
	deadline := time.Now().Add(10 * time.Second)
	for cp.GetAddress() == nil {
		if time.Now().After(deadline) {
			return nil, fmt.Errorf("collector did not publish its address within 10 s")
		}
		select {
		case <-c.startRet:
			if cp.GetAddress() == nil {
				return nil, fmt.Errorf("collector Start returned without listening")
			}
		default:
		}
		time.Sleep(200 * time.Microsecond)
	}
	return c, nil
}

func (c *Coll) consume() {
	defer close(c.consDone)
	ch := c.CP.GetMsgChan()
	for {
		if c.Pause != nil {
			c.Pause()
		}
		select {
		case <-c.stopCons:
			return
		case m := <-ch:
			if m == nil {
				continue
			}
			out := Summarize(m, nil)
			c.mu.Lock()
			d := Delivery{Out: out, Seq: m.GetSequenceNum(), Addr: m.GetExportAddress(), At: time.Now(), N: c.total}
			c.total++
			c.byDomain[out.Domain] = append(c.byDomain[out.Domain], d)
			c.cond.Broadcast()
			c.mu.Unlock()
		}
	}
}

func (c *Coll) Addr() string { return c.CP.GetAddress().String() }

// Wait waits until n messages of the domain were delivered (or timeout); returns a copy.
func (c *Coll) Wait(domain uint32, n int, timeout time.Duration) ([]Delivery, bool) {
	deadline := time.Now().Add(timeout)
	t := time.AfterFunc(timeout, func() {
		c.mu.Lock()
		c.cond.Broadcast()
		c.mu.Unlock()
	})
	defer t.Stop()
	c.mu.Lock()
	defer c.mu.Unlock()
	for len(c.byDomain[domain]) < n && time.Now().Before(deadline) {
		c.cond.Wait()
	}
	return append([]Delivery(nil), c.byDomain[domain]...), len(c.byDomain[domain]) >= n
}

func (c *Coll) Get(domain uint32) []Delivery {
	c.mu.Lock()
	defer c.mu.Unlock()
	return append([]Delivery(nil), c.byDomain[domain]...)
}

// Forget drops the record of a domain (keeps memory bounded over long runs).
func (c *Coll) Forget(domain uint32) {
	c.mu.Lock()
	delete(c.byDomain, domain)
	c.mu.Unlock()
}

func (c *Coll) Total() int {
	c.mu.Lock()
	defer c.mu.Unlock()
	return c.total
}

func (c *Coll) Domains() map[uint32]int {
	c.mu.Lock()
	defer c.mu.Unlock()
	out := map[uint32]int{}
	for k, v := range c.byDomain {
		out[k] = len(v)
	}
	return out
}

// WaitConns polls GetNumConnToCollector until it equals n.
func (c *Coll) WaitConns(n int64, timeout time.Duration) bool {
	deadline := time.Now().Add(timeout)
	for {
		if c.CP.GetNumConnToCollector() == n {
			return true
		}
		if time.Now().After(deadline) {
			return false
		}
		time.Sleep(100 * time.Microsecond)
	}
}

// Stop calls cp.Stop() while the consumer keeps draining; returns how long Stop took and
// whether Stop and Start returned within the timeout.
func (c *Coll) Stop(timeout time.Duration) (time.Duration, bool) {
	done := make(chan struct{})
	t0 := time.Now()
	go func() {
		c.CP.Stop()
		close(done)
	}()
	ok := true
	select {
	case <-done:
	case <-time.After(timeout):
		ok = false
	}
	d := time.Since(t0)
	if ok {
		select {
		case <-c.startRet:
		case <-time.After(timeout):
			ok = false
		}
	}
	close(c.stopCons)
	<-c.consDone
	return d, ok
}

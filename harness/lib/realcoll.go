package lib

import (
	"bytes"
	"fmt"
	"sync"
	"sync/atomic"
	"time"

	"github.com/vmware/go-ipfix/pkg/collector"
	"github.com/vmware/go-ipfix/pkg/entities"

	"verif/harness/mirror"
)

// Delivery is one message taken from the collector's message channel.
type Delivery struct {
	Out  *mirror.Outcome
	Seq  uint32 // header sequence number (used by the harness as a per-connection counter)
	Addr string
	At   time.Time
	N    int // global delivery index
}

// Coll is a real collecting process (sockets, goroutines) with a consumer that records
// every delivered message per observation domain.
type Coll struct {
	CP       *collector.CollectingProcess
	mu       sync.Mutex
	cond     *sync.Cond
	byDomain map[uint32][]Delivery
	total    int
	startRet chan struct{}
	consDone chan struct{}
	stopCons chan struct{}
	Pause    func() // optional: called by the consumer before each receive (pacing perturbation)
	hold     atomic.Int32
	Keep     func(m *entities.Message) bool
	// retained holds the last few delivered message objects with the summary taken at
	// delivery: a delivered message must not change when later messages arrive (it would
	// if the decoder handed out values aliasing a reused receive buffer).
	retained  []retainedMsg
	mutations []string
}

type retainedMsg struct {
	m     *entities.Message
	first *mirror.Outcome
	n     int
}

const retainWindow = 3

func sameOutcome(a, b *mirror.Outcome) string {
	if a.IsTemplate != b.IsTemplate || a.SetID != b.SetID || a.Domain != b.Domain {
		return "header/kind changed"
	}
	if len(a.TFields) != len(b.TFields) || len(a.Records) != len(b.Records) {
		return fmt.Sprintf("shape changed (%d/%d fields, %d/%d records)", len(a.TFields), len(b.TFields), len(a.Records), len(b.Records))
	}
	for i := range a.TFields {
		if a.TFields[i] != b.TFields[i] {
			return fmt.Sprintf("template field %d changed", i)
		}
	}
	for i := range a.Records {
		if len(a.Records[i]) != len(b.Records[i]) {
			return fmt.Sprintf("record %d field count changed", i)
		}
		for j := range a.Records[i] {
			if !bytes.Equal(a.Records[i][j], b.Records[i][j]) {
				return fmt.Sprintf("record %d field %d: %x at delivery, %x now", i, j, clip24(a.Records[i][j]), clip24(b.Records[i][j]))
			}
		}
	}
	return ""
}

func clip24(b []byte) []byte {
	if len(b) > 24 {
		return b[:24]
	}
	return b
}

// Mutations lists delivered messages whose content changed after delivery.
func (c *Coll) Mutations() []string {
	c.mu.Lock()
	defer c.mu.Unlock()
	return append([]string(nil), c.mutations...)
}

// StartCollector starts cp.Start() in a goroutine and waits until the address is published
// (the only readiness signal the API offers).
func StartCollector(in collector.CollectorInput) (*Coll, error) {
	return StartCollectorPaced(in, nil)
}

// StartCollectorPaced is StartCollector with a consumer pacing function. Listening on port 0 of a
// loopback address has no environmental reason to fail, but to be safe three attempts are made;
// an error returned from here means the collecting process did not start three times in a row.
func StartCollectorPaced(in collector.CollectorInput, pause func()) (*Coll, error) {
	var c *Coll
	var err error
	for attempt := 0; attempt < 3; attempt++ {
		if c, err = startCollectorOnce(in, pause); err == nil {
			return c, nil
		}
		time.Sleep(50 * time.Millisecond)
	}
	return nil, fmt.Errorf("the collecting process did not start in 3 attempts: %v", err)
}

func startCollectorOnce(in collector.CollectorInput, pause func()) (*Coll, error) {
	cp, err := collector.InitCollectingProcess(in)
	if err != nil {
		return nil, err
	}
	c := &Coll{CP: cp, byDomain: map[uint32][]Delivery{}, startRet: make(chan struct{}), consDone: make(chan struct{}), stopCons: make(chan struct{})}
	c.cond = sync.NewCond(&c.mu)
	c.Pause = pause
	go func() {
		defer close(c.startRet)
		cp.Start()
	}()
	go c.consume()
	deadline := time.Now().Add(10 * time.Second)
	for cp.GetAddress() == nil {
		if time.Now().After(deadline) {
			return nil, fmt.Errorf("collector did not publish its address within 10 s")
		}
		select {
		case <-c.startRet:
			if cp.GetAddress() == nil {
				return nil, fmt.Errorf("collector Start returned without listening")
			}
		default:
		}
		time.Sleep(200 * time.Microsecond)
	}
	return c, nil
}

// HoldConsumer makes the consumer of GetMsgChan() stand still (for at most 3 s) until ReleaseConsumer:
// a backlog then builds up inside the collector.
func (c *Coll) HoldConsumer()    { c.hold.Add(1) }
func (c *Coll) ReleaseConsumer() { c.hold.Add(-1) }

func (c *Coll) consume() {
	defer close(c.consDone)
	ch := c.CP.GetMsgChan()
	for {
		if c.Pause != nil {
			c.Pause()
		}
		for i := 0; i < 6000 && c.hold.Load() > 0; i++ { // HoldConsumer: stand still, at most 3 s
			time.Sleep(500 * time.Microsecond)
		}
		select {
		case <-c.stopCons:
			return
		case m := <-ch:
			if m == nil {
				continue
			}
			out := Summarize(m, nil)
			// re-read the messages delivered just before this one
			var mut []string
			for _, rm := range c.retained {
				if why := sameOutcome(rm.first, Summarize(rm.m, nil)); why != "" {
					mut = append(mut, fmt.Sprintf("delivery #%d (domain %d) changed after a later message was delivered: %s", rm.n, rm.first.Domain, why))
				}
			}
			c.mu.Lock()
			c.mutations = append(c.mutations, mut...)
			if len(c.mutations) > 20 {
				c.mutations = c.mutations[:20]
			}
			c.retained = append(c.retained, retainedMsg{m, out, c.total})
			if len(c.retained) > retainWindow {
				c.retained = c.retained[1:]
			}
			d := Delivery{Out: out, Seq: m.GetSequenceNum(), Addr: m.GetExportAddress(), At: time.Now(), N: c.total}
			c.total++
			c.byDomain[out.Domain] = append(c.byDomain[out.Domain], d)
			c.cond.Broadcast()
			c.mu.Unlock()
		}
	}
}

func (c *Coll) Addr() string { return c.CP.GetAddress().String() }

// Wait waits until n messages of the domain were delivered (or timeout); returns a copy.
func (c *Coll) Wait(domain uint32, n int, timeout time.Duration) ([]Delivery, bool) {
	deadline := time.Now().Add(timeout)
	t := time.AfterFunc(timeout, func() {
		c.mu.Lock()
		c.cond.Broadcast()
		c.mu.Unlock()
	})
	defer t.Stop()
	c.mu.Lock()
	defer c.mu.Unlock()
	for len(c.byDomain[domain]) < n && time.Now().Before(deadline) {
		c.cond.Wait()
	}
	return append([]Delivery(nil), c.byDomain[domain]...), len(c.byDomain[domain]) >= n
}

// Pop waits for the oldest not yet consumed delivery of the domain, removes it from the record and
// returns it (long sessions: memory stays bounded).
func (c *Coll) Pop(domain uint32, timeout time.Duration) (*Delivery, bool) {
	deadline := time.Now().Add(timeout)
	t := time.AfterFunc(timeout, func() {
		c.mu.Lock()
		c.cond.Broadcast()
		c.mu.Unlock()
	})
	defer t.Stop()
	c.mu.Lock()
	defer c.mu.Unlock()
	for len(c.byDomain[domain]) == 0 && time.Now().Before(deadline) {
		c.cond.Wait()
	}
	q := c.byDomain[domain]
	if len(q) == 0 {
		return nil, false
	}
	d := q[0]
	q[0] = Delivery{}
	c.byDomain[domain] = q[1:]
	return &d, true
}

// Pending returns how many deliveries of the domain have not been consumed by Pop.
func (c *Coll) Pending(domain uint32) int {
	c.mu.Lock()
	defer c.mu.Unlock()
	return len(c.byDomain[domain])
}

func (c *Coll) Get(domain uint32) []Delivery {
	c.mu.Lock()
	defer c.mu.Unlock()
	return append([]Delivery(nil), c.byDomain[domain]...)
}

// Forget drops the record of a domain (keeps memory bounded over long runs).
func (c *Coll) Forget(domain uint32) {
	c.mu.Lock()
	delete(c.byDomain, domain)
	c.mu.Unlock()
}

func (c *Coll) Total() int {
	c.mu.Lock()
	defer c.mu.Unlock()
	return c.total
}

func (c *Coll) Domains() map[uint32]int {
	c.mu.Lock()
	defer c.mu.Unlock()
	out := map[uint32]int{}
	for k, v := range c.byDomain {
		out[k] = len(v)
	}
	return out
}

// WaitConns polls GetNumConnToCollector until it equals n.
func (c *Coll) WaitConns(n int64, timeout time.Duration) bool {
	deadline := time.Now().Add(timeout)
	for {
		if c.CP.GetNumConnToCollector() == n {
			return true
		}
		if time.Now().After(deadline) {
			return false
		}
		time.Sleep(100 * time.Microsecond)
	}
}

// Stop calls cp.Stop() while the consumer keeps draining; returns how long Stop took and
// whether Stop and Start returned within the timeout.
func (c *Coll) Stop(timeout time.Duration) (time.Duration, bool) {
	done := make(chan struct{})
	t0 := time.Now()
	go func() {
		c.CP.Stop()
		close(done)
	}()
	ok := true
	select {
	case <-done:
	case <-time.After(timeout):
		ok = false
	}
	d := time.Since(t0)
	if ok {
		select {
		case <-c.startRet:
		case <-time.After(timeout):
			ok = false
		}
	}
	close(c.stopCons)
	<-c.consDone
	return d, ok
}

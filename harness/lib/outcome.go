package lib

import (
	"github.com/vmware/go-ipfix/pkg/entities"

	"verif/harness/mirror"
	"verif/harness/refipfix"
	"verif/harness/regtable"
)

// Reg is the model registry: source-text table + the harness's custom enterprise.
func Reg() *mirror.Registry {
	Init()
	r := &mirror.Registry{T: Table, Extra: map[[2]uint32]regtable.Elem{}}
	for _, e := range CustomElems {
		r.Extra[[2]uint32{e.Ent, uint32(e.ID)}] = e
	}
	return r
}

// Summarize turns a decoding result into harness terms.
func Summarize(m *entities.Message, err error) *mirror.Outcome {
	o := &mirror.Outcome{Err: err}
	if err != nil || m == nil {
		if err == nil {
			o.ExtractErr = errNilMessage
		}
		return o
	}
	o.Domain = m.GetObsDomainID()
	set := m.GetSet()
	if set == nil {
		o.ExtractErr = errNilMessage
		return o
	}
	o.IsTemplate = set.GetSetType() == entities.Template
	recs := set.GetRecords()
	if o.IsTemplate {
		if len(recs) == 0 {
			o.ExtractErr = errNoRecord
			return o
		}
		o.SetID = recs[0].GetTemplateID()
		for _, v := range recs[0].GetOrderedElementList() {
			ie := v.GetInfoElement()
			o.TFields = append(o.TFields, refipfix.Field{ID: ie.ElementId, Ent: ie.EnterpriseId, Len: ie.Len})
			o.TNames = append(o.TNames, ie.Name)
			o.TTypes = append(o.TTypes, RefType(ie.DataType))
		}
		return o
	}
	if len(recs) > 0 {
		o.SetID = recs[0].GetTemplateID()
	}
	o.Records, o.ExtractErr = RecordsPayload(m)
	for _, rec := range recs {
		var names []string
		for _, v := range rec.GetOrderedElementList() {
			if v != nil {
				names = append(names, v.GetName())
			}
		}
		o.RecNames = append(o.RecNames, names)
	}
	return o
}

type strErr string

func (e strErr) Error() string { return string(e) }

const errNilMessage = strErr("nil message or set returned without error")
const errNoRecord = strErr("template message without a record")

package lib

import (
	"bytes"
	"fmt"
	"runtime/debug"
	"sync"
	"time"
	"verif/harness/vclock"

	"github.com/vmware/go-ipfix/pkg/collector"
	"github.com/vmware/go-ipfix/pkg/entities"
)

// Decoder wraps a collecting process that is driven in-process through the
// VerifDecodePacket hook (no sockets). The message channel is drained by a goroutine.
type Decoder struct {
	CP   *collector.CollectingProcess
	stop chan struct{}
	wg   sync.WaitGroup
	Addr string
}

func NewDecoder(protocol string, mode collector.DecodingMode, ttl uint32, clock collector.VerifClock) (*Decoder, error) {
	in := collector.CollectorInput{Address: "127.0.0.1:0", Protocol: protocol, MaxBufferSize: 65535, TemplateTTL: ttl, DecodingMode: mode}
	var cp *collector.CollectingProcess
	var err error
	if clock != nil {
		cp, err = collector.VerifInitCollectingProcess(in, clock)
	} else {
		cp, err = collector.InitCollectingProcess(in)
	}
	if err != nil {
		return nil, err
	}
	d := &Decoder{CP: cp, stop: make(chan struct{}), Addr: "192.0.2.1:4739"}
	d.wg.Add(1)
	go func() {
		defer d.wg.Done()
		for {
			select {
			case <-d.stop:
				return
			case <-cp.GetMsgChan():
			}
		}
	}()
	return d, nil
}

func (d *Decoder) Close() {
	close(d.stop)
	d.wg.Wait()
}

// Decode presents one message. A panic inside the decoder is recovered and returned.
func (d *Decoder) Decode(msg []byte) (m *entities.Message, err error, panicVal any, stack string) {
	defer func() {
		if r := recover(); r != nil {
			panicVal = r
			stack = string(debug.Stack())
			if len(stack) > 5000 {
				stack = stack[:5000]
			}
		}
	}()
	m, err = d.CP.VerifDecodePacket(bytes.NewBuffer(append([]byte(nil), msg...)), d.Addr)
	return
}

// RecordsPayload extracts the payloads of every record of a decoded data message.
func RecordsPayload(m *entities.Message) ([][][]byte, error) {
	set := m.GetSet()
	if set == nil {
		return nil, fmt.Errorf("message without set")
	}
	var out [][][]byte
	for ri, rec := range set.GetRecords() {
		var r [][]byte
		for fi, v := range rec.GetOrderedElementList() {
			if v == nil {
				return nil, fmt.Errorf("record %d field %d is nil", ri, fi)
			}
			p, err := Payload(v)
			if err != nil {
				return nil, fmt.Errorf("record %d field %d: %v", ri, fi, err)
			}
			r = append(r, p)
		}
		out = append(out, r)
	}
	return out, nil
}

// ClockAdapter makes a vclock.Clock usable as the collector's clock.
type ClockAdapter struct{ *vclock.Clock }

func (a ClockAdapter) AfterFunc(d time.Duration, f func()) collector.VerifTimer {
	return a.Clock.AfterFuncTimer(d, f)
}

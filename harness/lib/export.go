package lib

import (
	"fmt"
	"math/rand/v2"

	"github.com/vmware/go-ipfix/pkg/entities"

	"verif/harness/regtable"
)

// TemplateSet builds a template set the way applications do: path 0 uses the
// MakeTemplateSet convenience function, 1 AddRecord, 2 AddRecordV2, 3 AddRecordWithExtraElements.
func TemplateSet(tid uint16, elems []regtable.Elem, path int) (entities.Set, error) {
	ies := make([]*entities.InfoElement, len(elems))
	for i, e := range elems {
		ies[i] = IE(e)
	}
	if path == 0 {
		return entities.MakeTemplateSet(tid, ies)
	}
	s := entities.NewSet(false)
	if err := s.PrepareSet(entities.Template, tid); err != nil {
		return nil, err
	}
	vals := make([]entities.InfoElementWithValue, len(ies))
	for i, ie := range ies {
		v, err := entities.DecodeAndCreateInfoElementWithValue(ie, nil)
		if err != nil {
			return nil, err
		}
		vals[i] = v
	}
	var err error
	switch path {
	case 1:
		err = s.AddRecord(vals, tid)
	case 2:
		err = s.AddRecordV2(vals, tid)
	default:
		err = s.AddRecordWithExtraElements(vals, 2, tid)
	}
	return s, err
}

// RecordValues builds the library value objects of one record.
func RecordValues(elems []regtable.Elem, rec [][]byte, r *rand.Rand) []entities.InfoElementWithValue {
	vals := make([]entities.InfoElementWithValue, len(elems))
	for i, e := range elems {
		v4as16 := r != nil && r.IntN(2) == 0
		vals[i] = Value(IE(e), e.Type, rec[i], v4as16)
	}
	return vals
}

// FillDataSet prepares set (fresh or reset) as a data set and adds the records; the add
// path is chosen per record from r (nil: AddRecord).
func FillDataSet(set entities.Set, tid uint16, elems []regtable.Elem, recs [][][]byte, r *rand.Rand) error {
	if err := set.PrepareSet(entities.Data, tid); err != nil {
		return err
	}
	for i, rec := range recs {
		if len(rec) != len(elems) {
			return fmt.Errorf("record %d has %d values for %d elements", i, len(rec), len(elems))
		}
		vals := RecordValues(elems, rec, r)
		path := 0
		if r != nil {
			path = r.IntN(3)
		}
		var err error
		switch path {
		case 0:
			err = set.AddRecord(vals, tid)
		case 1:
			err = set.AddRecordV2(vals, tid)
		default:
			err = set.AddRecordWithExtraElements(vals, r.IntN(4), tid)
		}
		if err != nil {
			return err
		}
	}
	return nil
}

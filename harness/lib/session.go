package lib

import (
	"fmt"
	"time"

	"github.com/vmware/go-ipfix/pkg/exporter"

	"verif/harness/peers"
)

// ExpSession is a real exporting process connected to a raw recording peer.
type ExpSession struct {
	Proto  string
	Domain uint32
	EP     *exporter.ExportingProcess
	TCP    *peers.TCPPeer
	Conn   *peers.ConnRec
	UDP    *peers.UDPPeer
}

func NewExpSession(proto string, v6 bool, domain uint32, tempRefTimeout uint32, checkConn time.Duration) (*ExpSession, error) {
	host := "127.0.0.1:0"
	if v6 {
		host = "[::1]:0"
	}
	s := &ExpSession{Proto: proto, Domain: domain}
	in := exporter.ExporterInput{CollectorProtocol: proto, ObservationDomainID: domain, TempRefTimeout: tempRefTimeout, IsIPv6: v6, CheckConnInterval: checkConn}
	var err error
	if proto == "tcp" {
		if s.TCP, err = peers.NewTCPPeer("tcp", host); err != nil {
			return nil, err
		}
		in.CollectorAddress = s.TCP.Addr()
	} else {
		if s.UDP, err = peers.NewUDPPeer("udp", host); err != nil {
			return nil, err
		}
		in.CollectorAddress = s.UDP.Addr()
	}
	if s.EP, err = exporter.InitExportingProcess(in); err != nil {
		s.closePeers()
		return nil, err
	}
	if proto == "tcp" {
		s.Conn = s.TCP.WaitConn(0, 10*time.Second)
		if s.Conn == nil {
			s.Close()
			return nil, fmt.Errorf("peer never saw the exporter's connection")
		}
	}
	return s, nil
}

// Take returns (and removes from the record) the next n bytes of the TCP stream, or the next
// datagram over UDP. ok=false means they did not arrive within the timeout.
func (s *ExpSession) Take(n int, timeout time.Duration) ([]byte, bool) {
	if s.Proto == "tcp" {
		return s.Conn.TakeN(n, timeout)
	}
	return s.UDP.TakeOne(timeout)
}

// TakeMsg returns (and removes from the record) the next message: over TCP the stream is cut at the
// message's own length field (hint = what SendSet reported, see ConnRec.TakeFramed), over UDP it is
// the next datagram.
func (s *ExpSession) TakeMsg(hint int, timeout time.Duration) ([]byte, bool) {
	if s.Proto == "tcp" {
		return s.Conn.TakeFramed(hint, timeout)
	}
	return s.UDP.TakeOne(timeout)
}

// Pending returns what arrived and has not been taken (TCP: bytes; UDP: datagrams flattened).
func (s *ExpSession) Pending() []byte {
	if s.Proto == "tcp" {
		return s.Conn.Bytes()
	}
	var out []byte
	for _, d := range s.UDP.All() {
		out = append(out, d.Data...)
	}
	return out
}

func (s *ExpSession) closePeers() {
	if s.TCP != nil {
		s.TCP.Close()
	}
	if s.UDP != nil {
		s.UDP.Close()
	}
}

func (s *ExpSession) Close() {
	if s.EP != nil {
		s.EP.CloseConnToCollector()
	}
	s.closePeers()
}

// Package lib adapts the harness's own value representation (raw payload bytes, typed by
// refipfix.Type) to go-ipfix's API and back, using only the library's public, typed
// constructors and getters. The byte<->value interpretation on the harness side is
// refipfix's, not the library's.
package lib

import (
	"flag"
	"fmt"
	"io"
	"math"
	"net"
	"os"
	"sync"

	"k8s.io/klog/v2"

	"github.com/vmware/go-ipfix/pkg/entities"
	"github.com/vmware/go-ipfix/pkg/registry"

	"verif/harness/refipfix"
	"verif/harness/regtable"
)

// CustomPEN is a user-registered enterprise used to reach the data types the shipped
// registries do not contain (signed8/16/64, float32, fixed-length octetArray).
const CustomPEN uint32 = 55555

var CustomElems = []regtable.Elem{
	{Name: "vfSigned8", ID: 1, Ent: CustomPEN, Type: refipfix.I8, Len: 1},
	{Name: "vfSigned16", ID: 2, Ent: CustomPEN, Type: refipfix.I16, Len: 2},
	{Name: "vfSigned64", ID: 3, Ent: CustomPEN, Type: refipfix.I64, Len: 8},
	{Name: "vfFloat32", ID: 4, Ent: CustomPEN, Type: refipfix.F32, Len: 4},
	{Name: "vfOctets7", ID: 5, Ent: CustomPEN, Type: refipfix.OctetArray, Len: 7},
	{Name: "vfOctets1", ID: 6, Ent: CustomPEN, Type: refipfix.OctetArray, Len: 1},
	{Name: "vfOctets300", ID: 7, Ent: CustomPEN, Type: refipfix.OctetArray, Len: 300},
	{Name: "vfOctetsVar", ID: 8, Ent: CustomPEN, Type: refipfix.OctetArray, Len: 65535},
	{Name: "vfString", ID: 9, Ent: CustomPEN, Type: refipfix.String, Len: 65535},
	{Name: "vfUnsigned8", ID: 10, Ent: CustomPEN, Type: refipfix.U8, Len: 1},
	{Name: "vfUnsigned16", ID: 11, Ent: CustomPEN, Type: refipfix.U16, Len: 2},
	{Name: "vfUnsigned32", ID: 12, Ent: CustomPEN, Type: refipfix.U32, Len: 4},
	{Name: "vfUnsigned64", ID: 13, Ent: CustomPEN, Type: refipfix.U64, Len: 8},
	{Name: "vfSigned32", ID: 14, Ent: CustomPEN, Type: refipfix.I32, Len: 4},
	{Name: "vfFloat64", ID: 15, Ent: CustomPEN, Type: refipfix.F64, Len: 8},
	{Name: "vfBoolean", ID: 16, Ent: CustomPEN, Type: refipfix.Bool, Len: 1},
	{Name: "vfMac", ID: 17, Ent: CustomPEN, Type: refipfix.Mac, Len: 6},
	{Name: "vfDTSec", ID: 18, Ent: CustomPEN, Type: refipfix.DTSec, Len: 4},
	{Name: "vfDTMilli", ID: 19, Ent: CustomPEN, Type: refipfix.DTMilli, Len: 8},
	{Name: "vfIPv4", ID: 20, Ent: CustomPEN, Type: refipfix.IPv4, Len: 4},
	{Name: "vfIPv6", ID: 21, Ent: CustomPEN, Type: refipfix.IPv6, Len: 16},
}

var typeMap = map[refipfix.Type]entities.IEDataType{
	refipfix.OctetArray: entities.OctetArray, refipfix.U8: entities.Unsigned8, refipfix.U16: entities.Unsigned16,
	refipfix.U32: entities.Unsigned32, refipfix.U64: entities.Unsigned64, refipfix.I8: entities.Signed8,
	refipfix.I16: entities.Signed16, refipfix.I32: entities.Signed32, refipfix.I64: entities.Signed64,
	refipfix.F32: entities.Float32, refipfix.F64: entities.Float64, refipfix.Bool: entities.Boolean,
	refipfix.Mac: entities.MacAddress, refipfix.String: entities.String, refipfix.DTSec: entities.DateTimeSeconds,
	refipfix.DTMilli: entities.DateTimeMilliseconds, refipfix.DTMicro: entities.DateTimeMicroseconds,
	refipfix.DTNano: entities.DateTimeNanoseconds, refipfix.IPv4: entities.Ipv4Address, refipfix.IPv6: entities.Ipv6Address,
	refipfix.BasicList: entities.BasicList, refipfix.SubTemplateList: entities.SubTemplateList,
	refipfix.SubTemplateMultiList: entities.SubTemplateMultiList, refipfix.Invalid: entities.InvalidDataType,
}

var revTypeMap = map[entities.IEDataType]refipfix.Type{}

func LibType(t refipfix.Type) entities.IEDataType { return typeMap[t] }
func RefType(t entities.IEDataType) refipfix.Type {
	if r, ok := revTypeMap[t]; ok {
		return r
	}
	return refipfix.Invalid
}

var (
	once  sync.Once
	Table *regtable.Table
	// Pool is every element usable for generation: shipped registries + custom enterprise.
	Pool []regtable.Elem
	// RegistryMismatch lists disagreements between the source-text table and what the
	// loaded registry answers; reported by the checks that rely on names (C01).
	RegistryMismatch []string
)

// Quiet silences the library's logging.
func Quiet() {
	fs := flag.NewFlagSet("klog", flag.ContinueOnError)
	klog.InitFlags(fs)
	fs.Set("logtostderr", "false")
	fs.Set("alsologtostderr", "false")
	fs.Set("stderrthreshold", "FATAL")
	klog.SetOutput(io.Discard)
}

// Init loads the library registry, registers the custom enterprise and loads the
// source-text table. Safe to call several times.
func Init() {
	once.Do(func() {
		defer func() {
			// a failure here is the harness's (e.g. the registry source no longer parses), never a verdict about go-ipfix
			if r := recover(); r != nil {
				fmt.Println("HARNESS-INIT-FAILED:", r)
				os.Exit(4)
			}
		}()
		for k, v := range typeMap {
			revTypeMap[v] = k
		}
		Quiet()
		// registering a user enterprise is the library's API: if IT fails, that is a finding, not a harness problem
		func() {
			defer func() {
				if r := recover(); r != nil {
					fmt.Printf("panic: registering a custom enterprise registry (InitNewRegistry/PutInfoElement) failed: %v\n", r)
					fmt.Println("goroutine 1 [running]:\ngithub.com/vmware/go-ipfix/pkg/registry.PutInfoElement(...)")
					os.Exit(6)
				}
			}()
			registry.LoadRegistry()
			if err := registry.InitNewRegistry(CustomPEN); err != nil {
				panic(err)
			}
			for _, e := range CustomElems {
				ie := entities.NewInfoElement(e.Name, e.ID, LibType(e.Type), e.Ent, e.Len)
				if err := registry.PutInfoElement(*ie, CustomPEN); err != nil {
					panic(err)
				}
			}
		}()
		t, err := regtable.Load()
		if err != nil {
			panic(err)
		}
		Table = t
		Pool = append(Pool, t.All...)
		Pool = append(Pool, CustomElems...)
		for _, e := range t.All {
			ie, err := registry.GetInfoElementFromID(e.ID, e.Ent)
			if err != nil {
				RegistryMismatch = append(RegistryMismatch, fmt.Sprintf("(%d,%d) %s: not in loaded registry: %v", e.Ent, e.ID, e.Name, err))
				continue
			}
			if ie.Name != e.Name || ie.ElementId != e.ID || ie.EnterpriseId != e.Ent || ie.Len != e.Len || ie.DataType != LibType(e.Type) {
				RegistryMismatch = append(RegistryMismatch, fmt.Sprintf("(%d,%d): source says %+v, registry says %+v", e.Ent, e.ID, e, *ie))
			}
			ie2, err := registry.GetInfoElement(e.Name, e.Ent)
			if err != nil || ie2 != ie {
				RegistryMismatch = append(RegistryMismatch, fmt.Sprintf("(%d,%d) %s: lookup by name disagrees with lookup by id", e.Ent, e.ID, e.Name))
			}
		}
	})
}

// IE returns the library's element object, the way an application obtains it.
func IE(e regtable.Elem) *entities.InfoElement {
	ie, err := registry.GetInfoElement(e.Name, e.Ent)
	if err != nil {
		panic(fmt.Sprintf("element %v: %v", e, err))
	}
	return ie
}

// Value builds the library value object for a payload, through the typed constructor an
// application would use. v4as16 makes IPv4 values use Go's 16-byte form.
func Value(ie *entities.InfoElement, t refipfix.Type, p []byte, v4as16 bool) entities.InfoElementWithValue {
	switch t {
	case refipfix.OctetArray:
		return entities.NewOctetArrayInfoElement(ie, append([]byte{}, p...))
	case refipfix.U8:
		return entities.NewUnsigned8InfoElement(ie, uint8(refipfix.GU(p)))
	case refipfix.U16:
		return entities.NewUnsigned16InfoElement(ie, uint16(refipfix.GU(p)))
	case refipfix.U32:
		return entities.NewUnsigned32InfoElement(ie, uint32(refipfix.GU(p)))
	case refipfix.U64:
		return entities.NewUnsigned64InfoElement(ie, refipfix.GU(p))
	case refipfix.I8:
		return entities.NewSigned8InfoElement(ie, int8(uint8(refipfix.GU(p))))
	case refipfix.I16:
		return entities.NewSigned16InfoElement(ie, int16(uint16(refipfix.GU(p))))
	case refipfix.I32:
		return entities.NewSigned32InfoElement(ie, int32(uint32(refipfix.GU(p))))
	case refipfix.I64:
		return entities.NewSigned64InfoElement(ie, int64(refipfix.GU(p)))
	case refipfix.F32:
		return entities.NewFloat32InfoElement(ie, math.Float32frombits(uint32(refipfix.GU(p))))
	case refipfix.F64:
		return entities.NewFloat64InfoElement(ie, math.Float64frombits(refipfix.GU(p)))
	case refipfix.Bool:
		return entities.NewBoolInfoElement(ie, len(p) == 1 && p[0] == 1)
	case refipfix.Mac:
		return entities.NewMacAddressInfoElement(ie, net.HardwareAddr(append([]byte{}, p...)))
	case refipfix.String:
		return entities.NewStringInfoElement(ie, string(p))
	case refipfix.DTSec:
		return entities.NewDateTimeSecondsInfoElement(ie, uint32(refipfix.GU(p)))
	case refipfix.DTMilli:
		return entities.NewDateTimeMillisecondsInfoElement(ie, refipfix.GU(p))
	case refipfix.IPv4:
		if v4as16 && len(p) == 4 {
			return entities.NewIPAddressInfoElement(ie, net.IPv4(p[0], p[1], p[2], p[3]))
		}
		return entities.NewIPAddressInfoElement(ie, net.IP(append([]byte{}, p...)))
	case refipfix.IPv6:
		return entities.NewIPAddressInfoElement(ie, net.IP(append([]byte{}, p...)))
	}
	panic(fmt.Sprintf("lib.Value: unsupported type %v", t))
}

// Payload reads a library value object back into payload bytes through the typed getter
// for its data type.
func Payload(v entities.InfoElementWithValue) (p []byte, err error) {
	defer func() {
		if r := recover(); r != nil {
			err = fmt.Errorf("getter panicked: %v", r)
		}
	}()
	switch v.GetDataType() {
	case entities.OctetArray:
		return append([]byte{}, v.GetOctetArrayValue()...), nil
	case entities.Unsigned8:
		return refipfix.PU(1, uint64(v.GetUnsigned8Value())), nil
	case entities.Unsigned16:
		return refipfix.PU(2, uint64(v.GetUnsigned16Value())), nil
	case entities.Unsigned32:
		return refipfix.PU(4, uint64(v.GetUnsigned32Value())), nil
	case entities.Unsigned64:
		return refipfix.PU(8, v.GetUnsigned64Value()), nil
	case entities.Signed8:
		return refipfix.PU(1, uint64(uint8(v.GetSigned8Value()))), nil
	case entities.Signed16:
		return refipfix.PU(2, uint64(uint16(v.GetSigned16Value()))), nil
	case entities.Signed32:
		return refipfix.PU(4, uint64(uint32(v.GetSigned32Value()))), nil
	case entities.Signed64:
		return refipfix.PU(8, uint64(v.GetSigned64Value())), nil
	case entities.Float32:
		return refipfix.PF32(v.GetFloat32Value()), nil
	case entities.Float64:
		return refipfix.PF64(v.GetFloat64Value()), nil
	case entities.Boolean:
		return refipfix.PBool(v.GetBooleanValue()), nil
	case entities.MacAddress:
		return append([]byte{}, v.GetMacAddressValue()...), nil
	case entities.String:
		return []byte(v.GetStringValue()), nil
	case entities.DateTimeSeconds:
		return refipfix.PU(4, uint64(v.GetUnsigned32Value())), nil
	case entities.DateTimeMilliseconds:
		return refipfix.PU(8, v.GetUnsigned64Value()), nil
	case entities.Ipv4Address:
		ip := v.GetIPAddressValue()
		if ip4 := ip.To4(); ip4 != nil {
			return append([]byte{}, ip4...), nil
		}
		return append([]byte{}, ip...), fmt.Errorf("ipv4Address element holds a non-IPv4 value %v", []byte(ip))
	case entities.Ipv6Address:
		ip := v.GetIPAddressValue()
		if len(ip) == 16 {
			return append([]byte{}, ip...), nil
		}
		// an ipv6Address value is 16 octets ("4/16/6 raw bytes for addresses", "every field taken from its full
		// encoded width"): the 4-octet form net.IP also knows for IPv4-mapped addresses is a different value
		return append([]byte{}, ip...), fmt.Errorf("ipv6Address element holds a %d-byte value", len(ip))
	}
	return nil, fmt.Errorf("unsupported data type %d", v.GetDataType())
}

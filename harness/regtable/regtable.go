// Package regtable extracts the information-element table (enterprise, id, name, type,
// length) from the *source text* of the generated registry files of the repository,
// without calling the registry code. Data type numbers are the IANA "IPFIX Information
// Element Data Types" numbers (RFC 5610), which is also refipfix.Type's numbering.
package regtable

import (
	"fmt"
	"os"
	"path/filepath"
	"regexp"
	"sort"
	"strconv"
	"strings"

	"verif/harness/refipfix"
)

type Elem struct {
	Name string
	ID   uint16
	Ent  uint32
	Type refipfix.Type
	Len  uint16
}

func (e Elem) Field() refipfix.Field { return refipfix.Field{ID: e.ID, Ent: e.Ent, Len: e.Len} }

type Table struct {
	All    []Elem                     // usable elements: unique name, supported type
	ByKey  map[[2]uint32]Elem         // (ent,id) -> elem, for every element present in the source (usable or not)
	Usable map[[2]uint32]bool         // (ent,id) usable for generation
	ByName map[string]Elem            // ent:name
	IDs    map[uint32]map[uint16]bool // every id mentioned per enterprise (to pick unknown ids)
}

func RepoDir() string {
	if d := os.Getenv("VERIF_REPO"); d != "" {
		return d
	}
	return "/repo"
}

var reElem = regexp.MustCompile(`NewInfoElement\(\s*"([^"]*)",\s*(\d+),\s*(\d+),\s*(\d+),\s*(\d+)\s*\),\s*(\d+)\s*\)`)
var reNonRev = regexp.MustCompile(`"([A-Za-z0-9]+)":\s+true`)

// Supported reports whether the library documents support for values of the type
// (micro/nanosecond timestamps and the structured list types are declared unsupported).
func Supported(t refipfix.Type) bool {
	switch t {
	case refipfix.DTMicro, refipfix.DTNano, refipfix.BasicList, refipfix.SubTemplateList, refipfix.SubTemplateMultiList, refipfix.Invalid:
		return false
	}
	return t <= refipfix.IPv6
}

func Load() (*Table, error) {
	dir := filepath.Join(RepoDir(), "pkg", "registry")
	t := &Table{ByKey: map[[2]uint32]Elem{}, Usable: map[[2]uint32]bool{}, ByName: map[string]Elem{}, IDs: map[uint32]map[uint16]bool{}}
	regsrc, err := os.ReadFile(filepath.Join(dir, "registry.go"))
	if err != nil {
		return nil, err
	}
	nonRev := map[string]bool{}
	if i := strings.Index(string(regsrc), "nonReversibleIEs = map"); i >= 0 {
		blk := string(regsrc)[i:]
		if j := strings.Index(blk, "\n}"); j >= 0 {
			blk = blk[:j]
		}
		for _, m := range reNonRev.FindAllStringSubmatch(blk, -1) {
			nonRev[m[1]] = true
		}
	}
	if len(nonRev) == 0 {
		return nil, fmt.Errorf("regtable: could not find the non-reversible element list")
	}
	seenName := map[string]bool{}
	add := func(e Elem, usable bool) {
		k := [2]uint32{e.Ent, uint32(e.ID)}
		if t.IDs[e.Ent] == nil {
			t.IDs[e.Ent] = map[uint16]bool{}
		}
		t.IDs[e.Ent][e.ID] = true
		nk := fmt.Sprintf("%d:%s", e.Ent, e.Name)
		if seenName[nk] {
			return // a later duplicate name is refused by the registry; not used for generation
		}
		seenName[nk] = true
		t.ByKey[k] = e
		if usable && e.Name != "" && Supported(e.Type) {
			t.All = append(t.All, e)
			t.Usable[k] = true
			t.ByName[nk] = e
		}
	}
	for _, fn := range []string{"registry_IANA.go", "registry_antrea.go"} {
		src, err := os.ReadFile(filepath.Join(dir, fn))
		if err != nil {
			return nil, err
		}
		for _, m := range reElem.FindAllStringSubmatch(string(src), -1) {
			id, _ := strconv.Atoi(m[2])
			ty, _ := strconv.Atoi(m[3])
			ent, _ := strconv.ParseUint(m[4], 10, 32)
			ln, _ := strconv.Atoi(m[5])
			e := Elem{Name: m[1], ID: uint16(id), Ent: uint32(ent), Type: refipfix.Type(ty), Len: uint16(ln)}
			add(e, true)
			if e.Ent == 0 && !nonRev[e.Name] {
				// RFC 5103: reverse element under PEN 29305, same id/type/length, "reverse"+Name
				r := e
				r.Ent = 29305
				r.Name = "reverse"
				if e.Name != "" {
					r.Name = "reverse" + strings.ToUpper(e.Name[:1]) + e.Name[1:]
				}
				add(r, true)
			}
		}
	}
	if len(t.All) < 300 {
		return nil, fmt.Errorf("regtable: only %d usable elements parsed", len(t.All))
	}
	sort.Slice(t.All, func(i, j int) bool {
		if t.All[i].Ent != t.All[j].Ent {
			return t.All[i].Ent < t.All[j].Ent
		}
		return t.All[i].ID < t.All[j].ID
	})
	return t, nil
}

// Lookup returns the element for (ent,id) if the source defines one.
func (t *Table) Lookup(ent uint32, id uint16) (Elem, bool) {
	e, ok := t.ByKey[[2]uint32{ent, uint32(id)}]
	return e, ok
}

func (t *Table) Get(ent uint32, name string) Elem {
	e, ok := t.ByName[fmt.Sprintf("%d:%s", ent, name)]
	if !ok {
		panic("regtable: no element " + name)
	}
	return e
}

// Mentioned reports whether the id appears at all for the enterprise.
func (t *Table) Mentioned(ent uint32, id uint16) bool {
	return t.IDs[ent] != nil && t.IDs[ent][id]
}

// Package mirror is the reference model of a collector's template table and the oracle
// that judges one decoding outcome against refipfix's reading of the same bytes. It knows
// nothing of the library's code; element widths come from regtable (registry source text)
// plus the harness's own custom enterprise.
package mirror

import (
	"bytes"
	"encoding/binary"
	"fmt"

	"verif/harness/refipfix"
	"verif/harness/regtable"
)

const (
	Strict = "Strict"
	Keep   = "LenientKeepUnknown"
	Drop   = "LenientDropUnknown"
)

type Key struct {
	Domain uint32
	TID    uint16
}

type Layout struct {
	Fields []refipfix.Field // as on the wire
	Widths []uint16         // width used for decoding: registry length for known elements, wire length for unknown ones
	Known  []bool
	Types  []refipfix.Type
	Names  []string
	// Gray: a known element was announced with a wire length different from the registry's.
	// Reduced-size encoding is not supported by the library; exactness is not judged then.
	Gray bool
	// Opaque: the collector accepted a template the model would have refused for an unsupported element type
	// only (see UnsupportedOnly); nothing is known about how it reads data for it.
	Opaque bool
}

type Table map[Key]*Layout

// Registry answers (enterprise,id) lookups for the model.
type Registry struct {
	T     *regtable.Table
	Extra map[[2]uint32]regtable.Elem
}

func (r *Registry) Lookup(ent uint32, id uint16) (regtable.Elem, bool) {
	if e, ok := r.Extra[[2]uint32{ent, uint32(id)}]; ok {
		return e, true
	}
	return r.T.Lookup(ent, id)
}

// Resolve models how one field specifier is accepted. ok=false: the template is refused.
func (r *Registry) Resolve(mode string, f refipfix.Field) (w uint16, known bool, t refipfix.Type, name string, ok bool) {
	if e, found := r.Lookup(f.Ent, f.ID); found {
		if !regtable.Supported(e.Type) {
			return 0, true, e.Type, e.Name, false
		}
		return e.Len, true, e.Type, e.Name, true
	}
	if mode == Strict {
		return 0, false, refipfix.OctetArray, "", false
	}
	return f.Len, false, refipfix.OctetArray, "", true
}

// Apply updates the table the way the property prescribes for one presented message:
// a valid template (re)defines (domain,id); a template set that fails after its 4-byte
// record header was read removes (domain,id); anything else leaves the table alone.
// It returns what happened: "none", "set", "delete".
func (t Table) Apply(r *Registry, mode string, msg []byte) (string, Key) {
	if len(msg) < 20 || binary.BigEndian.Uint16(msg[0:2]) != 10 {
		return "none", Key{}
	}
	if binary.BigEndian.Uint16(msg[16:18]) != 2 {
		return "none", Key{}
	}
	dom := binary.BigEndian.Uint32(msg[12:16])
	body := msg[20:]
	if len(body) < 4 {
		return "none", Key{}
	}
	tid, fields, _, err := refipfix.ParseTemplateRecord(body)
	k := Key{dom, tid}
	if err != nil {
		// truncated specifier list. An earlier specifier may already have been refused, which also deletes.
		delete(t, k)
		return "delete", k
	}
	l := &Layout{Fields: fields}
	for _, f := range fields {
		w, known, ty, name, ok := r.Resolve(mode, f)
		if !ok {
			delete(t, k)
			return "delete", k
		}
		if known && f.Len != w {
			l.Gray = true
		}
		l.Widths = append(l.Widths, w)
		l.Known = append(l.Known, known)
		l.Types = append(l.Types, ty)
		l.Names = append(l.Names, name)
	}
	t[k] = l
	return "set", k
}

// UnsupportedOnly reports whether msg is a template message that Apply refuses solely because it
// names registry elements of a data type the library declares unsupported (micro/nanosecond
// timestamps, lists), in a lenient mode. Carrying such an element as opaque octets instead of
// refusing the template contradicts no property.
func UnsupportedOnly(r *Registry, mode string, msg []byte) bool {
	if mode == Strict || len(msg) < 24 || binary.BigEndian.Uint16(msg[16:18]) != 2 {
		return false
	}
	_, fields, _, err := refipfix.ParseTemplateRecord(msg[20:])
	if err != nil {
		return false
	}
	n := 0
	for _, f := range fields {
		if e, found := r.Lookup(f.Ent, f.ID); found && !regtable.Supported(e.Type) {
			n++
		}
	}
	return n > 0
}

// Outcome is what the collector did with one message, in harness terms.
type Outcome struct {
	Err        error
	IsTemplate bool
	SetID      uint16
	Domain     uint32
	TFields    []refipfix.Field // template message: delivered elements (id, enterprise, length)
	TNames     []string
	TTypes     []refipfix.Type
	Records    [][][]byte // data message: payloads per record
	RecNames   [][]string
	ExtractErr error
}

// Judge compares one outcome with the reference reading of msg under the table as it was
// BEFORE msg was presented. It returns "" when acceptable, else (class, explanation).
// gray reports that the input falls in a zone where exactness is not judged.
func Judge(r *Registry, mode string, before Table, msg []byte, out *Outcome) (class, why string, gray bool) {
	if out.Err != nil {
		return "", "", false // an error is always acceptable for C03
	}
	if out.ExtractErr != nil {
		return "delivered-unreadable", out.ExtractErr.Error(), false
	}
	if len(msg) < 20 {
		return "message-from-short-input", fmt.Sprintf("a message was delivered for %d bytes of input (header + set header need 20)", len(msg)), false
	}
	dom := binary.BigEndian.Uint32(msg[12:16])
	setID := binary.BigEndian.Uint16(msg[16:18])
	hdrLen := int(binary.BigEndian.Uint16(msg[2:4]))
	setLen := int(binary.BigEndian.Uint16(msg[18:20]))
	lengthsAgree := hdrLen == len(msg) && setLen == len(msg)-16
	body := msg[20:]
	if out.Domain != dom {
		return "domain", fmt.Sprintf("delivered observation domain %d, wire %d", out.Domain, dom), false
	}
	if setID == 2 {
		if !out.IsTemplate {
			return "kind", "set id 2 delivered as a data message", false
		}
		tid, fields, rest, err := refipfix.ParseTemplateRecord(body)
		if err != nil {
			return "template-from-truncated-record", fmt.Sprintf("a template message was delivered but the record does not parse: %v", err), false
		}
		if out.SetID != tid {
			return "template-id", fmt.Sprintf("delivered template id %d, wire %d", out.SetID, tid), false
		}
		if len(out.TFields) != len(fields) {
			return "template-fields", fmt.Sprintf("delivered %d fields, wire has %d", len(out.TFields), len(fields)), false
		}
		for i, f := range fields {
			if out.TFields[i].ID != f.ID || out.TFields[i].Ent != f.Ent {
				return "template-fields", fmt.Sprintf("field %d delivered as (%d,%d), wire (%d,%d)", i, out.TFields[i].Ent, out.TFields[i].ID, f.Ent, f.ID), false
			}
		}
		return "", "", len(rest) != 0
	}
	if out.IsTemplate {
		return "kind", fmt.Sprintf("set id %d delivered as a template message", setID), false
	}
	l, ok := before[Key{dom, setID}]
	if !ok {
		return "data-without-template", fmt.Sprintf("a data message was delivered for (domain %d, set id %d) although no valid template is in force", dom, setID), false
	}
	if setID < 256 || l.Gray || !lengthsAgree {
		return "", "", true
	}
	recs, _, okp, whyNot := refipfix.SplitRecords(body, l.Widths)
	if !okp {
		return "data-from-unparseable-body", fmt.Sprintf("a data message with %d records was delivered, but the set body cannot be split under the template in force: %s", len(out.Records), whyNot), false
	}
	if len(out.Records) != len(recs) {
		return "record-count", fmt.Sprintf("%d records delivered, the body holds %d", len(out.Records), len(recs)), false
	}
	for i, rec := range recs {
		var want [][]byte
		for j, p := range rec {
			if mode == Drop && !l.Known[j] {
				continue
			}
			want = append(want, p)
		}
		got := out.Records[i]
		if len(got) != len(want) {
			return "field-count", fmt.Sprintf("record %d: %d fields delivered, %d expected", i, len(got), len(want)), false
		}
		for j := range want {
			w := want[j]
			if !bytes.Equal(got[j], normalize(l, mode, j, w)) {
				return "field-value", fmt.Sprintf("record %d field %d: delivered %x, wire %x", i, j, trunc(got[j]), trunc(w)), false
			}
		}
	}
	return "", "", false
}

// normalize maps a wire payload to what lib.Payload reports for it (booleans are read
// back as 1/2: any byte other than 1 is false).
func normalize(l *Layout, mode string, deliveredIdx int, wire []byte) []byte {
	// find the type of the delivered field
	idx := -1
	n := -1
	for j := range l.Widths {
		if mode == Drop && !l.Known[j] {
			continue
		}
		n++
		if n == deliveredIdx {
			idx = j
			break
		}
	}
	if idx >= 0 && l.Types[idx] == refipfix.Bool && len(wire) == 1 {
		if wire[0] == 1 {
			return []byte{1}
		}
		return []byte{2}
	}
	return wire
}

func trunc(b []byte) []byte {
	if len(b) > 24 {
		return b[:24]
	}
	return b
}

func (t Table) Clone() Table {
	c := Table{}
	for k, v := range t {
		c[k] = v
	}
	return c
}

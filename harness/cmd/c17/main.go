// C17: unknown information elements — strict rejects, keep preserves, drop omits exactly.
//
// A case is one (template with known and unknown elements, records) pair, encoded by
// refipfix and presented to fresh collecting processes in the three decoding modes, plus a
// differential twin without the unknown fields: in every mode each known field must decode
// to the value it has in the twin (and to the value that was encoded).
package main

import (
	"bytes"
	"fmt"
	"math/rand/v2"
	"net"
	"time"

	"github.com/vmware/go-ipfix/pkg/collector"

	"verif/harness/gen"
	"verif/harness/hx"
	"verif/harness/lib"
	"verif/harness/mirror"
	"verif/harness/refipfix"
	"verif/harness/regtable"
)

type fld struct {
	known bool
	elem  regtable.Elem // known: registry element; unknown: ID/Ent/Len only
}

func unknownField(r *rand.Rand) regtable.Elem {
	var e regtable.Elem
	e.Type = refipfix.OctetArray
	// half of the time the id comes from a small pool, so that one long-lived collector sees
	// the same unknown element again and again with different lengths
	small := r.IntN(2) == 0
	switch r.IntN(3) {
	case 0:
		for {
			e.ID = uint16(500 + r.IntN(30000))
			if small {
				e.ID = uint16(20000 + r.IntN(6))
			}
			if !lib.Table.Mentioned(0, e.ID) {
				break
			}
		}
	case 1:
		e.Ent = uint32(1 + r.IntN(50000))
		if e.Ent == 29305 || e.Ent == 56506 || e.Ent == lib.CustomPEN {
			e.Ent = 4444
		}
		e.ID = uint16(1 + r.IntN(32000))
		if small {
			e.Ent, e.ID = 4444, uint16(1+r.IntN(6))
		}
	default:
		e.Ent = []uint32{56506, 29305, lib.CustomPEN}[r.IntN(3)]
		for {
			e.ID = uint16(2000 + r.IntN(30000))
			if small {
				e.ID = uint16(25000 + r.IntN(6))
			}
			if !lib.Table.Mentioned(e.Ent, e.ID) {
				break
			}
		}
	}
	switch r.IntN(6) {
	case 0, 1:
		e.Len = refipfix.VarLen
	case 2:
		e.Len = uint16(21 + r.IntN(400))
	default:
		e.Len = uint16(1 + r.IntN(20))
	}
	return e
}

func unknownValue(r *rand.Rand, e regtable.Elem) []byte {
	if e.Len != refipfix.VarLen {
		return gen.Bytes(r, int(e.Len))
	}
	return gen.Bytes(r, []int{0, 1, 2, 17, 254, 255, 256, 700}[r.IntN(8)])
}

func main() {
	c := hx.New("C17")
	defer c.Finish()
	lib.Init()
	reg := lib.Reg()
	// enumerated part: nk known fields (1..4), every subset of up to 3 insertion positions
	type shape struct {
		nk  int
		pos []int // insertion slots (0..nk), non-decreasing: several unknowns may share a slot
	}
	var shapes []shape
	for nk := 1; nk <= 4; nk++ {
		for a := 0; a <= nk; a++ {
			shapes = append(shapes, shape{nk, []int{a}})
			for b := a; b <= nk; b++ {
				shapes = append(shapes, shape{nk, []int{a, b}})
				for d := b; d <= nk; d++ {
					shapes = append(shapes, shape{nk, []int{a, b, d}})
				}
			}
		}
	}
	reps := c.Pick(60, 1500)
	nEnum := len(shapes) * reps
	nRand := c.Pick(60000, 2000000)
	c.Note("enumerated_shapes", len(shapes))
	from, to := c.Range(nEnum + nRand)
	for k := from; k < to; k++ {
		if k%c.NBatch != c.Batch {
			continue
		}
		r := c.Rand(k, 0)
		var sh shape
		if k < nEnum {
			sh = shapes[k%len(shapes)]
		} else {
			sh.nk = 1 + r.IntN(11)
			nu := 1 + r.IntN(3)
			for i := 0; i < nu; i++ {
				sh.pos = append(sh.pos, r.IntN(sh.nk+1))
			}
			for i := range sh.pos { // sort
				for j := i + 1; j < len(sh.pos); j++ {
					if sh.pos[j] < sh.pos[i] {
						sh.pos[i], sh.pos[j] = sh.pos[j], sh.pos[i]
					}
				}
			}
		}
		known := gen.Template(r, lib.Pool, sh.nk)
		var fl []fld
		pi := 0
		for slot := 0; slot <= sh.nk; slot++ {
			for pi < len(sh.pos) && sh.pos[pi] == slot {
				fl = append(fl, fld{false, unknownField(r)})
				pi++
			}
			if slot < sh.nk {
				fl = append(fl, fld{true, known[slot]})
			}
		}
		nrec := 1 + r.IntN(4)
		vals := make([][][]byte, nrec)
		for i := range vals {
			for _, f := range fl {
				if f.known {
					vals[i] = append(vals[i], gen.Value(r, f.elem, 400))
				} else {
					vals[i] = append(vals[i], unknownValue(r, f.elem))
				}
			}
		}
		shapeStr := ""
		for _, f := range fl {
			if f.known {
				shapeStr += "K"
			} else if f.elem.Len == refipfix.VarLen {
				shapeStr += "v"
			} else {
				shapeStr += "u"
			}
		}
		desc := map[string]any{"shape": shapeStr, "records": nrec}
		c.Journal(k, desc)
		for _, mode := range []string{mirror.Strict, mirror.Keep, mirror.Drop} {
			c.Eval(1)
			c.Nontrivial(hx.H64(mode, fmt.Sprint(fl), fmt.Sprint(vals)))
			c.Distinct("shapes", hx.H64(shapeStr))
			check(c, reg, k, mode, fl, vals, desc)
		}
		if (k/c.NBatch)%5000 == 0 {
			c.Sample(8, desc)
		}
	}
	if c.Count < 0 && c.Start == 0 {
		socketPhase(c, reg, c.Pick(40, 400))
	}
}

// socketPhase sends templates with unknown elements and their data over ONE TCP connection to a real
// collecting process in keep and in drop mode: what is delivered must match the reference reading, and
// a delivered message must not change when later messages arrive on the connection (the collector
// fixture re-reads the last deliveries after each new one).
func socketPhase(c *hx.Ctx, reg *mirror.Registry, n int) {
	for mi, mode := range []string{mirror.Keep, mirror.Drop} {
		k := -20 - mi
		r := c.Rand(k, 3)
		c.Journal(k, map[string]any{"phase": "unknown elements through the real TCP handler", "mode": mode, "templates": n})
		coll, err := lib.StartCollector(collector.CollectorInput{Address: "127.0.0.1:0", Protocol: "tcp", MaxBufferSize: 65535, DecodingMode: collector.DecodingMode(mode)})
		if err != nil {
			c.Violation(k, "collector-did-not-start", err.Error(), nil)
			return
		}
		conn, err := net.Dial("tcp", coll.Addr())
		if err != nil {
			c.Inconclusive("dial: " + err.Error())
			coll.Stop(10 * time.Second)
			return
		}
		domain := uint32(0xC1700000 | uint32(c.Batch)<<8 | uint32(mi))
		model := mirror.Table{}
		type sent struct {
			msg    []byte
			before mirror.Table
		}
		var all []sent
		for i := 0; i < n; i++ {
			nk := 1 + r.IntN(5)
			known := gen.Template(r, lib.Pool, nk)
			var fl []fld
			for j, e := range known {
				if r.IntN(2) == 0 || j == 0 {
					fl = append(fl, fld{false, unknownField(r)})
				}
				fl = append(fl, fld{true, e})
			}
			tid := uint16(300 + i)
			for rep := 0; rep < 3; rep++ {
				vals := make([][][]byte, 1+r.IntN(3))
				for x := range vals {
					for _, f := range fl {
						if f.known {
							vals[x] = append(vals[x], gen.Value(r, f.elem, 300))
						} else {
							vals[x] = append(vals[x], unknownValue(r, f.elem))
						}
					}
				}
				tm, dm := build(domain, tid, fl, vals, true)
				if rep == 0 {
					all = append(all, sent{tm, model.Clone()})
					model.Apply(reg, mode, tm)
					conn.Write(tm)
				}
				all = append(all, sent{dm, model.Clone()})
				conn.Write(dm)
			}
		}
		got, ok := coll.Wait(domain, len(all), 30*time.Second)
		conn.Close()
		if !ok {
			c.Violation(k, "socket-phase-lost:"+mode, fmt.Sprintf("%d of %d messages sent over one TCP connection were delivered", len(got), len(all)), nil)
		} else {
			for i, d := range got {
				if class, why, _ := mirror.Judge(reg, mode, all[i].before, all[i].msg, d.Out); class != "" {
					c.Violation(k, "socket-phase:"+class+":"+mode, fmt.Sprintf("delivery %d: %s", i, why), nil)
					break
				}
			}
			c.Add("socket_phase_messages_"+mode, int64(len(got)))
		}
		if m := coll.Mutations(); len(m) > 0 {
			c.Violation(k, "delivered-message-changed-later:"+mode, m[0], nil)
		}
		coll.Stop(20 * time.Second)
	}
}

func build(dom uint32, tid uint16, fl []fld, vals [][][]byte, withUnknown bool) (tmsg, dmsg []byte) {
	var fields []refipfix.Field
	var widths []uint16
	for _, f := range fl {
		if !f.known && !withUnknown {
			continue
		}
		fields = append(fields, f.elem.Field())
		widths = append(widths, f.elem.Len)
	}
	var body []byte
	for _, rec := range vals {
		var ps [][]byte
		for j, f := range fl {
			if !f.known && !withUnknown {
				continue
			}
			ps = append(ps, rec[j])
		}
		b, err := refipfix.EncodeRecord(widths, ps)
		if err != nil {
			panic(err)
		}
		body = append(body, b...)
	}
	return refipfix.BuildMessage(dom, 0, 1, 2, refipfix.EncodeTemplateRecord(tid, fields)), refipfix.BuildMessage(dom, 0, 1, tid, body)
}

// one long-lived collecting process per mode (as in production), shared by every case of the batch
var persistent = map[string]*lib.Decoder{}
var nextTID = uint16(300)

func check(c *hx.Ctx, reg *mirror.Registry, k int, mode string, fl []fld, vals [][][]byte, desc map[string]any) {
	nextTID += 2
	if nextTID < 300 {
		nextTID = 300
	}
	tidWith, tidWithout := nextTID, nextTID+1
	tWith, dWith := build(5, tidWith, fl, vals, true)
	tWithout, dWithout := build(5, tidWithout, fl, vals, false)
	detail := map[string]any{"mode": mode, "shape": desc["shape"], "template": fmt.Sprintf("%x", tWith), "data": fmt.Sprintf("%x", clip(dWith, 1500))}
	fail := func(class, why string) {
		c.Violation(k, class+":"+mode, why, detail)
	}
	run := func(tm, dm []byte) (*mirror.Outcome, *mirror.Outcome, bool) {
		dec := persistent[mode]
		if dec == nil {
			var err error
			dec, err = lib.NewDecoder("tcp", collector.DecodingMode(mode), 0, nil)
			if err != nil {
				panic(err)
			}
			persistent[mode] = dec
		}
		m, derr, pv, st := dec.Decode(tm)
		if pv != nil {
			c.Violation(k, "panic:template:"+mode, fmt.Sprint(pv), map[string]any{"detail": detail, "stack": st})
			return nil, nil, false
		}
		to := lib.Summarize(m, derr)
		m, derr, pv, st = dec.Decode(dm)
		if pv != nil {
			c.Violation(k, "panic:data:"+mode, fmt.Sprint(pv), map[string]any{"detail": detail, "stack": st})
			return nil, nil, false
		}
		return to, lib.Summarize(m, derr), true
	}
	// twin without the unknown fields: the reference for the known values in this mode
	t0, d0, ok := run(tWithout, dWithout)
	if !ok {
		return
	}
	if t0.Err != nil || d0.Err != nil || d0.ExtractErr != nil {
		fail("twin-rejected", fmt.Sprintf("the same record without the unknown fields was not decoded: %v / %v / %v", t0.Err, d0.Err, d0.ExtractErr))
		return
	}
	tw, dw, ok := run(tWith, dWith)
	if !ok {
		return
	}
	c.Add("decodes_"+mode, 1)
	if mode == mirror.Strict {
		if tw.Err == nil {
			fail("strict-accepted-template", "strict mode accepted a template containing unknown elements")
			return
		}
		if dw.Err == nil {
			fail("strict-accepted-data", "strict mode decoded the data that followed a rejected template")
		}
		c.Add("strict_rejections", 1)
		// the same rejected template under the id of the twin, which holds a valid (all known) template at this
		// point: "the data that follows" is rejected too - also data that would fit the older definition
		tRedef, _ := build(5, tidWithout, fl, vals, true)
		tr, dr, ok := run(tRedef, dWithout)
		if !ok {
			return
		}
		if tr.Err == nil {
			fail("strict-accepted-template", "strict mode accepted a redefinition containing unknown elements")
		} else if dr.Err == nil {
			fail("strict-accepted-data", "strict mode rejected the redefinition of a template but decoded the data that followed under the older definition")
		}
		c.Add("strict_rejections_of_a_redefinition", 1)
		return
	}
	if tw.Err != nil {
		fail("lenient-rejected-template", fmt.Sprintf("template rejected: %v", tw.Err))
		return
	}
	if dw.Err != nil || dw.ExtractErr != nil {
		fail("lenient-rejected-data", fmt.Sprintf("data rejected: %v %v", dw.Err, dw.ExtractErr))
		return
	}
	// delivered template: unknown fields are nameless octet arrays of the wire length
	if len(tw.TFields) != len(fl) {
		fail("template-fields", fmt.Sprintf("template delivered with %d fields, %d on the wire", len(tw.TFields), len(fl)))
		return
	}
	for j, f := range fl {
		tf := tw.TFields[j]
		if tf.ID != f.elem.ID || tf.Ent != f.elem.Ent {
			fail("template-fields", fmt.Sprintf("field %d delivered as (%d,%d), wire (%d,%d)", j, tf.Ent, tf.ID, f.elem.Ent, f.elem.ID))
			return
		}
		if !f.known && (tw.TNames[j] != "" || tw.TTypes[j] != refipfix.OctetArray || tf.Len != f.elem.Len) {
			fail("unknown-not-nameless-octetarray", fmt.Sprintf("unknown field %d delivered as (%q,%v,len %d), wire length %d", j, tw.TNames[j], tw.TTypes[j], tf.Len, f.elem.Len))
			return
		}
		if f.known && tw.TNames[j] != f.elem.Name {
			fail("known-name", fmt.Sprintf("known field %d delivered with name %q, registry %q", j, tw.TNames[j], f.elem.Name))
			return
		}
	}
	if len(dw.Records) != len(vals) {
		fail("record-count", fmt.Sprintf("%d records delivered, %d sent", len(dw.Records), len(vals)))
		return
	}
	for i, rec := range vals {
		got := dw.Records[i]
		gi := 0
		ki := 0
		for j, f := range fl {
			if !f.known && mode == mirror.Drop {
				continue
			}
			if gi >= len(got) {
				fail("field-missing", fmt.Sprintf("record %d: field %d (%v) missing: %d fields delivered", i, j, f.known, len(got)))
				return
			}
			want := rec[j]
			if f.known && f.elem.Type == refipfix.Bool && want[0] != 1 {
				want = []byte{2}
			}
			if !bytes.Equal(got[gi], want) {
				cls := "unknown-bytes"
				if f.known {
					cls = "known-value"
				}
				fail(cls, fmt.Sprintf("record %d field %d: delivered %x, wire %x", i, j, clip(got[gi], 24), clip(want, 24)))
				return
			}
			name := dw.RecNames[i][gi]
			if !f.known && name != "" {
				fail("unknown-named", fmt.Sprintf("record %d: unknown field %d delivered with name %q", i, j, name))
				return
			}
			if f.known {
				if name != f.elem.Name {
					fail("known-name", fmt.Sprintf("record %d: known field %d delivered with name %q, expected %q", i, j, name, f.elem.Name))
					return
				}
				// differential: same value as in the twin
				if !bytes.Equal(got[gi], d0.Records[i][ki]) {
					fail("known-differs-from-twin", fmt.Sprintf("record %d known field %q: %x with the unknown fields present, %x without", i, name, clip(got[gi], 24), clip(d0.Records[i][ki], 24)))
					return
				}
				ki++
				c.Add("known_fields_compared", 1)
			} else {
				c.Add("unknown_fields_preserved", 1)
				if f.elem.Len == refipfix.VarLen {
					if len(want) < 255 {
						c.Add("unknown_var_prefix1", 1)
					} else {
						c.Add("unknown_var_prefix3", 1)
					}
				}
			}
			gi++
		}
		if gi != len(got) {
			cls := "extra-field"
			if mode == mirror.Drop {
				cls = "drop-kept-unknown"
			}
			fail(cls, fmt.Sprintf("record %d: %d fields delivered, %d expected", i, len(got), gi))
			return
		}
		if mode == mirror.Drop {
			c.Add("unknown_fields_dropped", int64(len(fl)-gi))
		}
	}
}

func clip(b []byte, n int) []byte {
	if len(b) > n {
		return b[:n]
	}
	return b
}

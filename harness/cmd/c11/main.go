// C11: TCP framing — the same messages however the byte stream is segmented.
//
// One real TCP collecting process per batch. A case is (byte stream, segmentation): the
// stream is the concatenation of 2..7 messages (templates, data, optionally one invalid
// message at any position, optionally a header with a length below 16 or beyond the bytes
// that follow), written over one connection in the given chunks with TCP_NODELAY and small
// pauses. The reference cuts the same bytes at the header lengths (refipfix.Frame) and
// judges each frame with the template model: the deliveries for the connection's
// observation domain must be exactly the accepted prefix, message by message; after the
// first rejected frame the collector must close the connection and deliver nothing more.
// A long-lived healthy connection runs alongside for the whole batch and must lose nothing.
package main

import (
	"encoding/binary"
	"errors"
	"fmt"
	"io"
	"math/rand/v2"
	"net"
	"os"
	"sort"
	"sync"
	"sync/atomic"
	"syscall"
	"time"

	"github.com/vmware/go-ipfix/pkg/collector"

	"verif/harness/gen"
	"verif/harness/hx"
	"verif/harness/lib"
	"verif/harness/mirror"
	"verif/harness/refipfix"
	"verif/harness/regtable"
)

var reg *mirror.Registry

type stream struct {
	bytes []byte
	desc  []string // per message
}

// the long-lived healthy connection's observation domain (per batch) and template id
var healthyDomain uint32
var hdead atomic.Bool

const healthyTID = 999

func smallTemplate(r *rand.Rand, n int) []regtable.Elem {
	var small []regtable.Elem
	for _, e := range lib.Pool {
		if e.Len <= 4 && e.Len >= 1 {
			small = append(small, e)
		}
	}
	return gen.Template(r, small, n)
}

// mkStream builds a stream for the domain. short: keep it under ~150 bytes.
func mkStream(r *rand.Rand, domain uint32, short bool, badAt int, badKind int) stream {
	var s stream
	nmsg := 2 + r.IntN(5)
	if short {
		nmsg = 2 + r.IntN(2)
	}
	var pool []regtable.Elem
	if short {
		pool = smallTemplate(r, 1+r.IntN(2))
	} else {
		pool = gen.Template(r, lib.Pool, 1+r.IntN(6))
	}
	tid := uint16(256 + r.IntN(500))
	add := func(m []byte, d string) {
		s.bytes = append(s.bytes, m...)
		s.desc = append(s.desc, d)
	}
	seq := uint32(0)
	for i := 0; i < nmsg; i++ {
		if i == badAt {
			switch badKind {
			case 0: // data for a template id never defined
				add(refipfix.BuildMessage(domain, seq, 1, tid+7, []byte{1, 2, 3, 4}), "bad:unknown-template")
			case 1: // template with an unknown element (strict mode)
				add(refipfix.BuildMessage(domain, seq, 1, 2, refipfix.EncodeTemplateRecord(tid+1, []refipfix.Field{{ID: 31001, Len: 4}})), "bad:unknown-element")
			case 2: // wrong version
				m := refipfix.BuildMessage(domain, seq, 1, tid, nil)
				binary.BigEndian.PutUint16(m[0:2], 9)
				add(m, "bad:version")
			case 3: // header length below 16
				m := refipfix.BuildMessage(domain, seq, 1, tid, nil)
				l := []int{0, 1, 4, 15, 5 + r.IntN(10)}[r.IntN(5)]
				binary.BigEndian.PutUint16(m[2:4], uint16(l))
				if r.IntN(2) == 0 {
					// a runt: the message is complete by its own length field, shorter than a header, and the last
					// thing on the stream (the client stays connected): nothing more is needed to know it is undecodable
					add(m[:max(l, 4)], "bad:runt-at-end-of-stream")
					return s
				}
				add(m, "bad:length<16")
			case 4: // record truncated inside the message (lengths consistent)
				rec := gen.Records(r, pool, 1, 2000)
				if i > 0 && len(rec) == 1 {
					b, _ := refipfix.EncodeRecord(gen.Widths(pool), rec[0])
					if len(b) > 1 {
						// shorter than one record would be padding; make it one record plus a partial one
						body := append(append([]byte{}, b...), b[:len(b)-1]...)
						if _, pad, okp, _ := refipfix.SplitRecords(body, gen.Widths(pool)); okp && pad > 0 {
							// the partial record is shorter than the shortest record: that is set padding, which is
							// only beyond dispute when it is zero (RFC 7011 3.3.2: SHOULD; a collector may insist)
							for j := len(body) - pad; j < len(body); j++ {
								body[j] = 0
							}
							add(refipfix.BuildMessage(domain, seq, 1, tid, body), "data+zero-padding")
						} else {
							add(refipfix.BuildMessage(domain, seq, 1, tid, body), "bad:truncated-record")
						}
					} else {
						add(refipfix.BuildMessage(domain, seq, 1, tid+7, []byte{1}), "bad:unknown-template")
					}
				} else {
					add(refipfix.BuildMessage(domain, seq, 1, tid+7, []byte{1, 2}), "bad:unknown-template")
				}
			case 6: // an undecodable data message for the template ANOTHER connection (the healthy one) works with:
				// this connection is closed; the other one must not notice ("other connections are unaffected")
				add(refipfix.BuildMessage(healthyDomain, seq, 1, healthyTID, append(refipfix.PU(4, uint64(seq)), 200)), "bad:truncated-record-for-the-other-connection's-template")
			case 5: // header length beyond the bytes that follow (the collector must wait, deliver nothing)
				m := refipfix.BuildMessage(domain, seq, 1, tid, []byte{9, 9, 9, 9})
				binary.BigEndian.PutUint16(m[2:4], uint16(len(m)+20+r.IntN(2000)))
				add(m, "bad:length-beyond")
			}
			seq++
			continue
		}
		if i == 0 || r.IntN(5) == 0 {
			if i > 0 {
				if short {
					pool = smallTemplate(r, 1+r.IntN(2))
				} else {
					pool = gen.Template(r, lib.Pool, 1+r.IntN(6))
				}
				if r.IntN(2) == 0 {
					tid++
				}
			}
			add(refipfix.BuildMessage(domain, seq, 1, 2, refipfix.EncodeTemplateRecord(tid, gen.Fields(pool))), "template")
		} else {
			nrec := 1 + r.IntN(3)
			budget := 3000
			if short {
				nrec, budget = 1+r.IntN(2), 40
			}
			var body []byte
			for _, rec := range gen.Records(r, pool, nrec, budget) {
				b, _ := refipfix.EncodeRecord(gen.Widths(pool), rec)
				body = append(body, b...)
			}
			add(refipfix.BuildMessage(domain, seq, 1, tid, body), fmt.Sprintf("data(%d)", len(body)))
		}
		seq++
	}
	return s
}

type expectation struct {
	frames   [][]byte
	before   []mirror.Table
	accepted int  // number of leading frames that must be delivered
	closes   bool // the collector must close the connection by itself
	open     bool // the next frame is one a collector may accept or refuse (data with non-zero leftover bytes): not judged from there on
}

func expect(streamBytes []byte) expectation {
	var e expectation
	frames, tail := refipfix.Frame(streamBytes)
	model := mirror.Table{}
	for _, f := range frames {
		before := model.Clone()
		ok := false
		if len(f) >= 20 && binary.BigEndian.Uint16(f[0:2]) == 10 {
			if int(binary.BigEndian.Uint16(f[18:20])) != len(f)-16 {
				// the set length field disagrees with the message length: a collector may read the set as long as
				// its own length says (RFC 7011) or, as this library does, as long as the message; the two readings
				// accept different messages: the verdict ends here
				e.open = true
				return e
			}
			setID := binary.BigEndian.Uint16(f[16:18])
			if setID == 2 {
				eff, _ := model.Apply(reg, mirror.Strict, f)
				ok = eff == "set"
			} else {
				dom := binary.BigEndian.Uint32(f[12:16])
				if l, has := before[mirror.Key{Domain: dom, TID: setID}]; has {
					_, pad, okp, _ := refipfix.SplitRecords(f[20:], l.Widths)
					ok = okp
					if okp && !refipfix.SameBody(f[len(f)-pad:], nil, pad+1) {
						// leftover bytes that are not zero: padding SHOULD be zero (RFC 7011 3.3.2); accepting the
						// message and refusing it (and closing) are both defensible: the verdict ends here
						e.open = true
						return e
					}
				}
			}
		}
		if !ok {
			e.closes = true
			return e
		}
		e.frames = append(e.frames, f)
		e.before = append(e.before, before)
		e.accepted++
	}
	if len(tail) >= 4 {
		if l := int(binary.BigEndian.Uint16(tail[2:4])); l < 16 {
			e.closes = true
		}
	}
	return e
}

func isClosedErr(err error) bool {
	return errors.Is(err, io.EOF) || errors.Is(err, syscall.ECONNRESET) || errors.Is(err, syscall.EPIPE) || errors.Is(err, net.ErrClosed)
}

func main() {
	c := hx.New("C11")
	defer c.Finish()
	lib.Init()
	reg = lib.Reg()
	coll, err := lib.StartCollector(collector.CollectorInput{Address: "127.0.0.1:0", Protocol: "tcp", MaxBufferSize: 65535, DecodingMode: collector.DecodingModeStrict}) // (the default mode is nobody's property: say which one is meant)
	if err != nil {
		fmt.Println(err)
		c.Finish()
		os.Exit(2)
	}
	addr := coll.Addr()

	// healthy long-lived connection
	healthyDomain = uint32(0xEE000000) | uint32(c.Batch)
	var hsent int
	var hmu sync.Mutex
	hstop := make(chan struct{})
	hdone := make(chan struct{})
	go func() {
		defer close(hdone)
		conn, err := net.Dial("tcp", addr)
		if err != nil {
			return
		}
		defer conn.Close()
		el := []regtable.Elem{lib.CustomElems[11], lib.CustomElems[8]} // a counter and a variable-length string
		conn.Write(refipfix.BuildMessage(healthyDomain, 0, 1, 2, refipfix.EncodeTemplateRecord(healthyTID, gen.Fields(el))))
		n := uint32(0)
		for {
			select {
			case <-hstop:
				return
			default:
			}
			n++
			if _, err := conn.Write(refipfix.BuildMessage(healthyDomain, n, 1, healthyTID, append(refipfix.PU(4, uint64(n)), 1, 'h'))); err != nil {
				hdead.Store(true) // nobody but the collector can have closed this connection
				return
			}
			hmu.Lock()
			hsent = int(n)
			hmu.Unlock()
			time.Sleep(500 * time.Microsecond)
		}
	}()

	if !coll.WaitConns(1, 10*time.Second) {
		fmt.Println("healthy connection not established")
		c.Finish()
		os.Exit(2)
	}

	// case space: exhaustive single and double cuts of a few short streams + random multi-cuts
	type exh struct {
		s    stream
		cuts [][]int
	}
	var exhaustive []exh
	nShort := c.Pick(3, 12)
	fixed := rand.New(rand.NewPCG(11, 11)) // the exhaustive sub-space does not depend on VERIF_SEED
	nEx := 0
	for i := 0; i < nShort; i++ {
		badAt, badKind := -1, 0
		if i%3 == 1 {
			badAt, badKind = 1+fixed.IntN(2), fixed.IntN(5)
		}
		var s stream
		for {
			s = mkStream(fixed, 0, true, badAt, badKind)
			if len(s.bytes) <= 150 {
				break
			}
		}
		var cuts [][]int
		for a := 1; a < len(s.bytes); a++ {
			cuts = append(cuts, []int{a})
		}
		for a := 1; a < len(s.bytes); a++ {
			for b := a + 1; b < len(s.bytes); b++ {
				cuts = append(cuts, []int{a, b})
			}
		}
		exhaustive = append(exhaustive, exh{s, cuts})
		nEx += len(cuts)
	}
	nRand := c.Pick(3000, 400000)
	c.Note("exhaustive_part", fmt.Sprintf("every single and double cut point of %d short streams (<= 150 bytes): %d segmentations; plus %d random streams with 0..20 cuts, 1-byte-at-a-time and all-in-one writes", nShort, nEx, nRand))
	caseNo := uint32(0)
	from, to := c.Range(nEx + nRand)
	for k := from; k < to; k++ {
		if k%c.NBatch != c.Batch {
			continue
		}
		r := c.Rand(k, 0)
		caseNo++
		domain := uint32(c.Batch)<<24 | caseNo
		var s stream
		var cuts []int
		if k < nEx {
			x := k
			for _, e := range exhaustive {
				if x < len(e.cuts) {
					s = stream{bytes: append([]byte{}, e.s.bytes...), desc: e.s.desc}
					cuts = e.cuts[x]
					break
				}
				x -= len(e.cuts)
			}
			// stamp the domain of this case into every message of the (fixed) stream
			frames, _ := refipfix.Frame(s.bytes)
			off := 0
			for _, f := range frames {
				binary.BigEndian.PutUint32(s.bytes[off+12:off+16], domain)
				off += len(f)
			}
			if off+16 <= len(s.bytes) {
				binary.BigEndian.PutUint32(s.bytes[off+12:off+16], domain)
			}
			c.Add("exhaustive_segmentations", 1)
		} else {
			badAt, badKind := -1, 0
			if r.IntN(2) == 0 {
				badAt, badKind = r.IntN(6), r.IntN(7)
			}
			s = mkStream(r, domain, r.IntN(3) == 0, badAt, badKind)
			switch r.IntN(6) {
			case 0: // all in one
			case 1: // one byte at a time (bounded)
				if len(s.bytes) <= 400 {
					for i := 1; i < len(s.bytes); i++ {
						cuts = append(cuts, i)
					}
				}
			default:
				n := r.IntN(21)
				set := map[int]bool{}
				for i := 0; i < n && len(s.bytes) > 1; i++ {
					set[1+r.IntN(len(s.bytes)-1)] = true
				}
				for p := range set {
					cuts = append(cuts, p)
				}
				sort.Ints(cuts)
			}
			c.Add("random_segmentations", 1)
		}
		desc := map[string]any{"messages": s.desc, "stream_len": len(s.bytes), "cuts": cuts, "domain": domain}
		c.Journal(k, desc)
		c.Eval(1)
		exp := expect(s.bytes)
		inside := false
		{
			bounds := map[int]bool{0: true}
			off := 0
			frames, _ := refipfix.Frame(s.bytes)
			for _, f := range frames {
				off += len(f)
				bounds[off] = true
			}
			for _, p := range cuts {
				if !bounds[p] {
					inside = true
				}
			}
		}
		runCase(c, coll, k, r, addr, domain, s, cuts, exp, desc)
		if hdead.Load() {
			c.Violation(k, "other-connection-closed", "the healthy connection, which only ever sent valid messages, was closed by the collector while this case's stream was being handled", map[string]any{"case": desc, "stream": fmt.Sprintf("%x", s.bytes[:min(len(s.bytes), 1200)])})
			break
		}
		if inside {
			c.Nontrivial(hx.H64(s.bytes[min(16, len(s.bytes)):], fmt.Sprint(cuts)))
		}
		coll.Forget(domain)
		if (k/c.NBatch)%1500 == 0 {
			c.Sample(8, desc)
		}
		if c.NumViolations() > 6 {
			break
		}
	}
	close(hstop)
	<-hdone
	hmu.Lock()
	sent := hsent
	hmu.Unlock()
	got, ok := coll.Wait(healthyDomain, sent+1, 15*time.Second)
	if !ok {
		c.Violation(-1, "healthy-connection-lost-messages", fmt.Sprintf("the healthy connection sent 1 template + %d data messages, %d were delivered", sent, len(got)), nil)
	} else {
		for i, d := range got {
			if i > 0 && d.Seq != uint32(i) {
				c.Violation(-1, "healthy-connection-order", fmt.Sprintf("delivery %d of the healthy connection carries counter %d", i, d.Seq), nil)
				break
			}
		}
		c.Add("healthy_connection_messages_delivered", int64(len(got)))
	}
	if d, ok := coll.Stop(20 * time.Second); !ok {
		c.Inconclusive(fmt.Sprintf("collector Stop did not return within 20 s (%v)", d))
	}
}

func runCase(c *hx.Ctx, coll *lib.Coll, k int, r *rand.Rand, addr string, domain uint32, s stream, cuts []int, exp expectation, desc map[string]any) {
	fail := func(class, why string) {
		c.Violation(k, class, why, map[string]any{"case": desc, "stream": fmt.Sprintf("%x", s.bytes[:min(len(s.bytes), 1200)])})
	}
	conn, err := net.Dial("tcp", addr)
	if err != nil {
		c.Inconclusive("dial: " + err.Error())
		return
	}
	defer conn.Close()
	conn.(*net.TCPConn).SetNoDelay(true)
	prev := 0
	pts := append(append([]int{}, cuts...), len(s.bytes))
	for _, p := range pts {
		if p <= prev {
			continue
		}
		if _, err := conn.Write(s.bytes[prev:p]); err != nil {
			if !isClosedErr(err) {
				c.Inconclusive("write: " + err.Error())
			}
			break
		}
		prev = p
		if p < len(s.bytes) {
			if len(cuts) <= 3 {
				time.Sleep(time.Duration(150+r.IntN(250)) * time.Microsecond)
			} else if r.IntN(3) == 0 {
				time.Sleep(time.Duration(r.IntN(300)) * time.Microsecond)
			}
		}
	}
	c.Add("chunks_written", int64(len(pts)))
	// expected deliveries
	got, ok := coll.Wait(domain, exp.accepted, 15*time.Second)
	if !ok {
		fail("message-lost", fmt.Sprintf("%d of the %d messages the stream contains were delivered", len(got), exp.accepted))
		return
	}
	if exp.open {
		c.Add("streams_judged_up_to_an_ambiguous_frame", 1)
		conn.Close()
	} else if exp.closes {
		conn.SetReadDeadline(time.Now().Add(15 * time.Second))
		var b [1]byte
		_, err := conn.Read(b[:])
		if err == nil {
			fail("collector-wrote-to-connection", "the collector sent bytes to the exporter")
			return
		}
		var ne net.Error
		if errors.As(err, &ne) && ne.Timeout() {
			fail("connection-not-closed", "the stream contains an undecodable message, but 15 s later the collector has not closed the connection")
			return
		}
		c.Add("closed_by_collector", 1)
	} else {
		conn.Close()
	}
	// the handler must be gone before "nothing further" can be judged: wait until this
	// case's connection is no longer counted (the healthy connection stays: count 1)
	for i := 0; i < 30 && !hdead.Load() && !coll.WaitConns(1, 500*time.Millisecond); i++ {
	}
	if hdead.Load() {
		return // reported by the caller
	}
	if !coll.WaitConns(1, time.Millisecond) {
		c.Inconclusive(fmt.Sprintf("case %d: connection count did not return to 1 (healthy connection only)", k))
		return
	}
	got = coll.Get(domain)
	if exp.open && len(got) >= exp.accepted {
		got = got[:exp.accepted]
	}
	if len(got) != exp.accepted {
		fail("extra-delivery", fmt.Sprintf("%d messages delivered, the stream holds %d before its first undecodable message", len(got), exp.accepted))
		return
	}
	for i, d := range got {
		if d.Seq != binary.BigEndian.Uint32(exp.frames[i][8:12]) {
			fail("order", fmt.Sprintf("delivery %d has sequence field %d, frame %d has %d", i, d.Seq, i, binary.BigEndian.Uint32(exp.frames[i][8:12])))
			return
		}
		class, why, gray := mirror.Judge(reg, mirror.Strict, exp.before[i], exp.frames[i], d.Out)
		if class != "" {
			fail("content:"+class, fmt.Sprintf("delivery %d: %s", i, why))
			return
		}
		if gray {
			c.Add("gray", 1)
		}
	}
	if m := coll.Mutations(); len(m) > 0 {
		fail("delivered-message-changed-later", m[0])
		return
	}
	c.Add("messages_delivered_and_matched", int64(len(got)))
}

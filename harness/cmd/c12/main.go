// C12: collector under many clients — exactly once, in order, clean shutdown.
//
// A case is one run: a real collecting process (tcp, tls or udp), 1..64 concurrent raw
// clients each sending its own uniquely numbered messages (observation domain = client,
// counter in the header's sequence field and in a field value), pacing jitter, abrupt
// closes mid-message, a consumer with random pauses that never stops draining, and in
// half of the runs Stop() during traffic. The event log {write-begin, write-ack, close,
// delivery, stop-call, stop-return} is checked offline: no duplicate, nothing delivered
// that was not sent, per-client order, (tcp/tls, no Stop) every acknowledged message of a
// gracefully closed connection delivered, connection count back to 0, Stop returns, no
// collector goroutine and no listening socket left. The race detector watches the run.
package main

import (
	"bytes"
	"crypto/tls"
	"crypto/x509"
	"encoding/binary"
	"fmt"
	"math/rand/v2"
	"net"
	"os"
	"runtime"
	"runtime/pprof"
	"strconv"
	"strings"
	"sync"
	"sync/atomic"
	"time"

	"github.com/vmware/go-ipfix/pkg/collector"

	"verif/harness/certs"
	"verif/harness/gen"
	"verif/harness/hx"
	"verif/harness/lib"
	"verif/harness/refipfix"
	"verif/harness/regtable"
)

type clientLog struct {
	id       uint32
	begun    int  // writes started (counter of the last message whose write began)
	acked    int  // writes that returned nil
	graceful bool // closed with Close() after the last full message
	abrupt   bool // closed in the middle of a message
	writeErr bool
	bursts   int // datagram bursts sent against a consumer standing still
}

var elems []regtable.Elem

func dataMsg(domain uint32, n uint32) []byte {
	// two fields: counter (u32) + a variable-length string to vary message sizes
	pad := bytes.Repeat([]byte{'x'}, int(n%97))
	body := append(refipfix.PU(4, uint64(n)), append([]byte{byte(len(pad))}, pad...)...)
	oct := octetsFor(domain, n)
	body = append(body, byte(len(oct)))
	body = append(body, oct...)
	return refipfix.BuildMessage(domain, n, 1, 700, body)
}

// octetsFor is the octetArray payload of message n of a client (checked on delivery and
// again after later messages were delivered).
func octetsFor(domain, n uint32) []byte {
	b := make([]byte, 8+int(n%5))
	for i := range b {
		b[i] = byte(domain>>uint(8*(i%4))) ^ byte(n) ^ byte(i*7)
	}
	return b
}

func main() {
	c := hx.New("C12")
	defer c.Finish()
	lib.Init()
	elems = []regtable.Elem{lib.CustomElems[11], lib.CustomElems[8], lib.CustomElems[7]}
	ca := certs.NewCA("verif-ca")
	server := certs.Issue(ca, certs.Opts{CN: "collector", IPs: []string{"127.0.0.1"}})
	pool := x509.NewCertPool()
	pool.AppendCertsFromPEM(ca.CertPEM)
	total := c.Pick(96, 6000)
	per := total / c.NBatch
	from, to := c.Range(per)
	for k := from; k < to; k++ {
		r := c.Rand(k, 0)
		proto := []string{"tcp", "tcp", "tls", "udp"}[r.IntN(4)]
		procs := []int{1, 2, 4, 16}[r.IntN(4)]
		nclients := 1 + r.IntN(16)
		if r.IntN(4) == 0 {
			nclients = 17 + r.IntN(48)
		}
		stopDuring := r.IntN(2) == 0
		desc := map[string]any{"proto": proto, "gomaxprocs": procs, "clients": nclients, "stop_during_traffic": stopDuring}
		c.Journal(k, desc)
		c.Eval(1)
		runtime.GOMAXPROCS(procs)
		interleaved := oneRun(c, k, r, proto, nclients, stopDuring, server, pool, desc)
		runtime.GOMAXPROCS(16)
		if interleaved != 0 {
			c.Nontrivial(interleaved)
		}
		if k < from+3 {
			c.Sample(6, desc)
		}
		if c.NumViolations() > 10 {
			break
		}
	}
}

func oneRun(c *hx.Ctx, k int, r *rand.Rand, proto string, nclients int, stopDuring bool, server *certs.Pair, pool *x509.CertPool, desc map[string]any) (interleaving uint64) {
	fail := func(class, why string, extra any) {
		c.Violation(k, class+":"+proto, why, map[string]any{"run": desc, "detail": extra})
	}
	in := collector.CollectorInput{Address: "127.0.0.1:0", Protocol: proto, MaxBufferSize: 65535}
	if proto == "tls" {
		in.Protocol, in.IsEncrypted, in.ServerCert, in.ServerKey = "tcp", true, server.CertPEM, server.KeyPEM
	}
	pauseSeed := r.Uint64()
	var pn atomic.Uint64
	var hold atomic.Int32
	coll, err := lib.StartCollectorPaced(in, func() {
		x := (pn.Add(1) * 0x9E3779B97F4A7C15) ^ pauseSeed
		if x%16 == 0 {
			time.Sleep(time.Duration(x>>8%300) * time.Microsecond)
		}
		// a datagram client in a burst asks the consumer to stand still for a moment (bounded), so that a backlog of
		// dozens of datagrams of ONE exporter builds up inside the collector: they must still come out in order
		for i := 0; i < 400 && hold.Load() > 0; i++ {
			time.Sleep(500 * time.Microsecond)
		}
	})
	if err != nil {
		fail("collector-did-not-start", err.Error(), nil)
		return 0
	}
	addr := coll.Addr()
	stream := proto != "udp"
	logs := make([]*clientLog, nclients)
	seeds := make([]uint64, nclients)
	for i := range logs {
		logs[i] = &clientLog{id: uint32(k)<<8&0xffff00 | uint32(i+1)}
		logs[i].id |= uint32(c.Batch) << 24
		seeds[i] = r.Uint64()
	}
	var wg sync.WaitGroup
	stopped := make(chan struct{})
	stopReturned := make(chan struct{})
	for i := 0; i < nclients; i++ {
		wg.Add(1)
		go func(cl *clientLog, seed uint64) {
			defer wg.Done()
			cr := rand.New(rand.NewPCG(seed, 7))
			nmsg := cr.IntN(60)
			if cr.IntN(5) == 0 {
				nmsg = cr.IntN(201)
			}
			if cr.IntN(12) == 0 {
				nmsg = 0
			}
			var conn net.Conn
			var err error
			switch proto {
			case "tcp":
				conn, err = net.Dial("tcp", addr)
			case "tls":
				conn, err = tls.Dial("tcp", addr, &tls.Config{RootCAs: pool})
			default:
				conn, err = net.Dial("udp", addr)
			}
			if err != nil {
				cl.writeErr = true
				return
			}
			defer conn.Close()
			if cr.IntN(3) == 0 {
				time.Sleep(time.Duration(cr.IntN(2000)) * time.Microsecond)
			}
			tmsg := refipfix.BuildMessage(cl.id, 0, 1, 2, refipfix.EncodeTemplateRecord(700, gen.Fields(elems)))
			if _, err := conn.Write(tmsg); err != nil {
				cl.writeErr = true
				return
			}
			abruptAt := -1
			if stream && cr.IntN(4) == 0 && nmsg > 0 {
				abruptAt = 1 + cr.IntN(nmsg)
			}
			inBurst := false
			defer func() {
				if inBurst {
					hold.Add(-1)
				}
			}()
			burstFrom, burstTo := -1, -1
			if !stream && nmsg >= 60 && cr.IntN(3) == 0 {
				burstFrom = 1 + cr.IntN(nmsg-50)
				burstTo = burstFrom + 40 + cr.IntN(nmsg-burstFrom-39)
			}
			for n := 1; n <= nmsg; n++ {
				select {
				case <-stopped:
					return
				default:
				}
				m := dataMsg(cl.id, uint32(n))
				if n == abruptAt {
					conn.Write(m[:16+cr.IntN(len(m)-16)])
					cl.abrupt = true
					return
				}
				if n == burstFrom {
					hold.Add(1)
					inBurst = true
					cl.bursts++
				}
				if n == burstTo {
					hold.Add(-1)
					inBurst = false
				}
				if !stream && !(n >= burstFrom && n < burstTo) { // datagram pacing: at most 8 not-yet-delivered datagrams in flight
					for w := 0; w < 300 && n-len(coll.Get(cl.id)) > 8; w++ {
						time.Sleep(100 * time.Microsecond)
					}
				}
				cl.begun = n
				if _, err := conn.Write(m); err != nil {
					cl.writeErr = true
					return
				}
				cl.acked = n
				if cr.IntN(4) == 0 {
					time.Sleep(time.Duration(cr.IntN(1000)) * time.Microsecond)
				}
			}
			cl.graceful = true
		}(logs[i], seeds[i])
	}
	// in runs that call Stop() during traffic, a few extra clients sit in the middle of a message
	// (header and part of the body written, connection held open) when Stop arrives
	if stopDuring && stream {
		for i := 0; i < r.IntN(3); i++ {
			wg.Add(1)
			go func(id uint32, cut int) {
				defer wg.Done()
				var conn net.Conn
				var err error
				if proto == "tls" {
					conn, err = tls.Dial("tcp", addr, &tls.Config{RootCAs: pool})
				} else {
					conn, err = net.Dial("tcp", addr)
				}
				if err != nil {
					return
				}
				defer conn.Close()
				m := dataMsg(id, 1)
				conn.Write(refipfix.BuildMessage(id, 0, 1, 2, refipfix.EncodeTemplateRecord(700, gen.Fields(elems))))
				conn.Write(m[:16+cut%(len(m)-16)])
				<-stopReturned // the connection is held open until Stop has returned (or was given up)
			}(uint32(c.Batch)<<24|0xF00000|uint32(k&0xfff)<<4|uint32(i), r.IntN(1000))
			c.Add("clients_stuck_mid_message_at_stop", 1)
		}
		// ... and over tls, a few peers that have connected but sit in the middle of the handshake (a few bytes of
		// the first record written, nothing more): "Stop returns promptly even with clients connected"
		if proto == "tls" {
			for i := 0; i < r.IntN(3); i++ {
				wg.Add(1)
				go func(nbytes int) {
					defer wg.Done()
					conn, err := net.Dial("tcp", addr)
					if err != nil {
						return
					}
					defer conn.Close()
					conn.Write([]byte{0x16, 0x03, 0x01, 0x02, 0x00, 0x01}[:nbytes])
					<-stopReturned
				}(r.IntN(7))
				c.Add("clients_stuck_in_the_tls_handshake_at_stop", 1)
			}
		}
	}
	var stopDur time.Duration
	var stopOK bool
	stopCalledEarly := false
	if stopDuring {
		time.Sleep(time.Duration(r.IntN(8000)) * time.Microsecond)
		stopCalledEarly = true
		close(stopped)
		stopDur, stopOK = coll.Stop(30 * time.Second)
		close(stopReturned)
		wg.Wait()
	} else {
		wg.Wait()
		// every client has closed: deliveries must complete and the connection count must return to 0
		if stream {
			for _, cl := range logs {
				if cl.graceful && !cl.writeErr {
					if got, ok := coll.Wait(cl.id, cl.acked+1, 20*time.Second); !ok {
						fail("acknowledged-message-lost", fmt.Sprintf("client %#x wrote 1 template + %d data messages and closed gracefully; %d messages were delivered", cl.id, cl.acked, len(got)), nil)
					}
				}
			}
			if !coll.WaitConns(0, 20*time.Second) {
				fail("connection-count", fmt.Sprintf("all %d clients disconnected, GetNumConnToCollector() still reports %d after 20 s", nclients, coll.CP.GetNumConnToCollector()), nil)
			}
		} else {
			// datagrams: give the per-client goroutines a moment to drain what was received
			last := -1
			for i := 0; i < 200; i++ {
				if t := coll.Total(); t == last {
					break
				} else {
					last = t
				}
				time.Sleep(2 * time.Millisecond)
			}
		}
		close(stopped)
		stopDur, stopOK = coll.Stop(30 * time.Second)
	}
	c.Max("max_stop_us", int64(stopDur/time.Microsecond))
	if !stopOK {
		buf := new(bytes.Buffer)
		pprof.Lookup("goroutine").WriteTo(buf, 2)
		fail("stop-hang", fmt.Sprintf("Stop()/Start() did not return within 30 s although the consumer kept draining (normal: milliseconds)"), clipS(buf.String(), 8000))
		return 0
	}
	c.Add("runs_"+proto, 1)
	if stopCalledEarly {
		c.Add("runs_with_stop_under_load", 1)
	}
	// ---- offline check of the event log ----
	deliveredTotal, sentTotal := 0, 0
	var order []byte
	all := map[int]uint32{}
	for _, cl := range logs {
		ds := coll.Get(cl.id)
		deliveredTotal += len(ds)
		sentTotal += cl.begun + 1
		seen := map[uint32]bool{}
		lastN := -1
		for i, d := range ds {
			all[d.N] = cl.id
			var n int
			if d.Out.IsTemplate {
				n = 0
			} else {
				n = int(d.Seq)
				if len(d.Out.Records) != 1 || len(d.Out.Records[0]) != 3 || binary.BigEndian.Uint32(d.Out.Records[0][0]) != d.Seq || len(d.Out.Records[0][1]) != int(d.Seq%97) || !bytes.Equal(d.Out.Records[0][2], octetsFor(cl.id, d.Seq)) {
					fail("delivered-content", fmt.Sprintf("client %#x delivery %d (counter %d): content does not match what that message carried", cl.id, i, d.Seq), nil)
					return 0
				}
			}
			if seen[uint32(n)] {
				fail("duplicate-delivery", fmt.Sprintf("client %#x message %d delivered twice", cl.id, n), nil)
				return 0
			}
			seen[uint32(n)] = true
			if n > cl.begun {
				fail("delivered-but-never-sent", fmt.Sprintf("client %#x: message %d delivered, only %d were written", cl.id, n, cl.begun), nil)
				return 0
			}
			if n <= lastN {
				fail("out-of-order", fmt.Sprintf("client %#x: message %d delivered after message %d", cl.id, n, lastN), nil)
				return 0
			}
			if stream && n != lastN+1 {
				fail("gap-in-stream", fmt.Sprintf("client %#x: message %d delivered right after message %d over a byte stream", cl.id, n, lastN), nil)
				return 0
			}
			lastN = n
		}
	}
	if m := coll.Mutations(); len(m) > 0 {
		fail("delivered-message-changed-later", m[0], nil)
		return 0
	}
	c.Add("messages_sent", int64(sentTotal))
	c.Add("messages_delivered", int64(deliveredTotal))
	c.Add("clients", int64(nclients))
	for _, cl := range logs {
		c.Add("udp_bursts_against_a_consumer_standing_still", int64(cl.bursts))
	}
	if !stream && !stopCalledEarly && sentTotal > 20 && deliveredTotal*2 < sentTotal {
		c.Inconclusive(fmt.Sprintf("udp run %d: only %d of %d datagrams delivered", k, deliveredTotal, sentTotal))
	}
	// delivery interleaving across clients
	prev := uint32(0)
	switches := 0
	for i := 0; i < len(all); i++ {
		id := all[i]
		if id != prev && prev != 0 {
			switches++
		}
		prev = id
		order = append(order, byte(id), byte(id>>8))
	}
	// ---- after Stop: goroutines and socket ----
	leak := ""
	for i := 0; i < 60; i++ {
		buf := new(bytes.Buffer)
		pprof.Lookup("goroutine").WriteTo(buf, 2)
		leak = ""
		for _, g := range strings.Split(buf.String(), "\n\n") {
			if strings.Contains(g, "go-ipfix/pkg/collector.") {
				leak = g
				break
			}
		}
		if leak == "" {
			break
		}
		time.Sleep(50 * time.Millisecond)
	}
	if leak != "" {
		fail("goroutine-leak", "a collector goroutine is still alive 3 s after Stop returned", clipS(leak, 3000))
	}
	// The deciding probe looks at this process's own sockets (/proc/self/fd against /proc/self/net/*):
	// a re-bind or dial that fails or succeeds because ANOTHER process picked the same ephemeral port
	// in the meantime says nothing about the collector (false alarm seen once in 6000 thorough runs).
	_, portS, _ := net.SplitHostPort(addr)
	port, _ := strconv.Atoi(portS)
	held, err := ownSocketOnPort(stream, port)
	if err != nil {
		c.Inconclusive("cannot inspect own sockets: " + err.Error())
	} else if held != "" {
		if stream {
			fail("still-listening", "this process still owns a listening TCP socket on the collector's port after Stop returned: "+held, nil)
		} else {
			fail("port-not-released", "this process still owns a UDP socket on the collector's port after Stop returned: "+held, nil)
		}
	} else {
		c.Add("own_socket_probes", 1)
	}
	if stream {
		if conn, err := net.DialTimeout("tcp", addr, 2*time.Second); err == nil {
			conn.Close()
			c.Add("port_taken_by_other_process", 1)
		} else if ln, err := net.Listen("tcp", addr); err != nil {
			c.Add("port_taken_by_other_process", 1)
		} else {
			ln.Close()
			c.Add("rebind_ok", 1)
		}
	} else {
		ua, _ := net.ResolveUDPAddr("udp", addr)
		if pc, err := net.ListenUDP("udp", ua); err != nil {
			c.Add("port_taken_by_other_process", 1)
		} else {
			pc.Close()
			c.Add("rebind_ok", 1)
		}
	}
	c.Add("leak_probes", 1)
	if switches >= 2 {
		return hx.H64(order)
	}
	return 0
}

// ownSocketOnPort reports a socket of this process bound to the local port: a TCP socket in LISTEN
// state, or any UDP socket. It returns a description of the socket, or "" if there is none.
func ownSocketOnPort(stream bool, port int) (string, error) {
	own := map[string]bool{}
	ents, err := os.ReadDir("/proc/self/fd")
	if err != nil {
		return "", err
	}
	for _, e := range ents {
		l, err := os.Readlink("/proc/self/fd/" + e.Name())
		if err == nil && strings.HasPrefix(l, "socket:[") {
			own[strings.TrimSuffix(strings.TrimPrefix(l, "socket:["), "]")] = true
		}
	}
	files := []string{"/proc/self/net/udp", "/proc/self/net/udp6"}
	if stream {
		files = []string{"/proc/self/net/tcp", "/proc/self/net/tcp6"}
	}
	read := 0
	for _, f := range files {
		b, err := os.ReadFile(f)
		if err != nil {
			continue
		}
		read++
		for i, ln := range strings.Split(string(b), "\n") {
			fs := strings.Fields(ln)
			if i == 0 || len(fs) < 10 {
				continue
			}
			lp := fs[1][strings.LastIndex(fs[1], ":")+1:]
			p, err := strconv.ParseInt(lp, 16, 32)
			if err != nil || int(p) != port {
				continue
			}
			if stream && fs[3] != "0A" {
				continue
			}
			if own[fs[9]] {
				return fmt.Sprintf("%s local=%s state=%s inode=%s", f, fs[1], fs[3], fs[9]), nil
			}
		}
	}
	if read == 0 {
		return "", fmt.Errorf("no /proc/self/net table readable")
	}
	return "", nil
}

func clipS(s string, n int) string {
	if len(s) > n {
		return s[:n]
	}
	return s
}

var _ = os.Exit

// C09: the exporter never emits an invalid, oversized or silently altered message.
//
// A case is a history of sends on one real exporting process against a raw peer. Every
// send is classified beforehand:
//
//	must-refuse : unknown template id, wrong field count, undefined set type, message
//	              longer than 65535 bytes, ill-typed value (wrong address family, MAC not
//	              6 bytes, fixed-length octetArray of the wrong length)
//	must-accept : valid and <= 65535 bytes (TCP)
//	transport   : valid, <= 65535, but possibly above the UDP datagram limit — the verdict
//	              follows SendSet's own return value
//
// The peer's stream must be exactly the concatenation of the accepted messages: after
// every refused send a valid marker message is sent and must be the next thing the peer
// sees (TCP preserves order, so stray bytes would precede it). Accepted data must carry
// refipfix's encoding of the values supplied.
package main

import (
	"bytes"
	"fmt"
	"github.com/vmware/go-ipfix/pkg/exporter"
	"io"
	"math/rand/v2"
	"net"
	"time"

	"github.com/vmware/go-ipfix/pkg/entities"

	"verif/harness/gen"
	"verif/harness/hx"
	"verif/harness/lib"
	"verif/harness/refipfix"
	"verif/harness/regtable"
)

const wait = 15 * time.Second

type tmpl struct {
	tid   uint16
	elems []regtable.Elem
}

var (
	elU32    = lib.CustomElems[11] // vfUnsigned32
	elStr    = lib.CustomElems[8]  // vfString
	elIPv4   = lib.CustomElems[19]
	elIPv6   = lib.CustomElems[20]
	elMac    = lib.CustomElems[16]
	elOct7   = lib.CustomElems[4]
	elOct300 = lib.CustomElems[6]
)

func main() {
	c := hx.New("C09")
	defer c.Finish()
	lib.Init()
	for i, want := range map[int]string{11: "vfUnsigned32", 8: "vfString", 19: "vfIPv4", 20: "vfIPv6", 16: "vfMac", 4: "vfOctets7", 6: "vfOctets300"} {
		if lib.CustomElems[i].Name != want {
			panic("custom element table changed")
		}
	}
	// a second exporting process of the same program sends to its own collector all the while: what THIS process
	// transmits must not depend on it
	stopSecond := startSecondExporter(c)
	defer stopSecond()
	total := c.Pick(4000, 200000)
	per := total / c.NBatch
	from, to := c.Range(per)
	for k := from; k < to; k++ {
		r := c.Rand(k, 0)
		proto := "tcp"
		if k%5 == 4 {
			proto = "udp"
		}
		desc := map[string]any{"proto": proto}
		c.Journal(k, desc)
		c.Eval(1)
		var classes []string
		refusedThenAccepted := false
		c.Guard(k, "exporter", desc, func() {
			classes, refusedThenAccepted = runHistory(c, k, r, proto)
		})
		desc["sends"] = classes
		if refusedThenAccepted {
			c.Nontrivial(hx.H64(fmt.Sprint(classes), proto))
		}
		if k < from+5 {
			c.Sample(5, desc)
		}
	}
}

type sess struct {
	c     *hx.Ctx
	k     int
	s     *lib.ExpSession
	proto string
	seqOK bool
}

// expectMessage takes the next message from the peer and compares it with want (header
// sequence number and export time are C08's business and are copied from the capture).
func (x *sess) expectMessage(what string, n int, setID uint16, body []byte, minRec int, detail any) bool {
	raw, ok := x.s.TakeMsg(n, wait)
	if !ok {
		x.c.Inconclusive(fmt.Sprintf("case %d: %s did not arrive", x.k, what))
		return false
	}
	m, err := refipfix.ParseMessage(raw)
	if err != nil {
		x.c.Violation(x.k, "stream-corrupt", fmt.Sprintf("%s: bytes at the peer are not the expected message: %v (stray bytes from a refused send?)", what, err), detail)
		return false
	}
	// RFC 7011 set padding is not a difference (refipfix.SameBody)
	if m.SetID != setID || !refipfix.SameBody(m.Body, body, minRec) {
		cls := "stream-mismatch"
		if len(m.Body) == len(body) && m.SetID == setID {
			cls = "altered-field"
		}
		x.c.Violation(x.k, cls, fmt.Sprintf("%s: captured message differs from the reference encoding of what was supplied", what), detail)
		return false
	}
	x.c.Add("messages_verified", 1)
	if len(m.Body) != len(body) {
		x.c.Add("messages_with_set_padding", 1)
	}
	return true
}

func runHistory(c *hx.Ctx, k int, r *rand.Rand, proto string) (classes []string, refusedThenAccepted bool) {
	s, err := lib.NewExpSession(proto, false, 0xC09, 600, 0)
	if err != nil {
		c.Inconclusive("session: " + err.Error())
		return
	}
	defer s.Close()
	x := &sess{c: c, k: k, s: s, proto: proto}
	// marker template: one u32 field
	marker := tmpl{tid: s.EP.NewTemplateID(), elems: []regtable.Elem{elU32}}
	sendTemplate := func(t tmpl) bool {
		set, err := lib.TemplateSet(t.tid, t.elems, r.IntN(4))
		if err != nil {
			c.Violation(k, "templateset-error", err.Error(), nil)
			return false
		}
		n, err := s.EP.SendSet(set)
		if err != nil {
			c.Violation(k, "valid-template-refused", err.Error(), nil)
			return false
		}
		return x.expectMessage("template", n, 2, refipfix.EncodeTemplateRecord(t.tid, gen.Fields(t.elems)), 4, nil)
	}
	if !sendTemplate(marker) {
		return
	}
	markerN := uint32(0)
	sendMarker := func() bool {
		markerN++
		rec := [][]byte{refipfix.PU(4, uint64(0xAB000000|markerN))}
		set := entities.NewSet(false)
		if err := lib.FillDataSet(set, marker.tid, marker.elems, [][][]byte{rec}, nil); err != nil {
			c.Violation(k, "dataset-error", err.Error(), nil)
			return false
		}
		n, err := s.EP.SendSet(set)
		if err != nil {
			c.Violation(k, "valid-send-refused-after-error", fmt.Sprintf("marker message refused: %v", err), classes)
			return false
		}
		body, _ := refipfix.EncodeRecord(gen.Widths(marker.elems), rec)
		return x.expectMessage("marker after refused send", n, marker.tid, body, refipfix.MinRecordLen(gen.Widths(marker.elems)), classes)
	}
	var tmpls []tmpl
	newTemplate := func(elems []regtable.Elem) (tmpl, bool) {
		t := tmpl{tid: s.EP.NewTemplateID(), elems: elems}
		if !sendTemplate(t) {
			return t, false
		}
		tmpls = append(tmpls, t)
		return t, true
	}
	lastRefused := false
	nsend := 12 + r.IntN(30)
	for i := 0; i < nsend; i++ {
		var (
			class   string
			set     entities.Set
			refuse  bool
			transp  bool
			setID   uint16
			expBody []byte
			expMin  int // shortest record of the template of a send that must go out
		)
		set = entities.NewSet(false)
		kind := r.IntN(11)
		switch kind {
		case 0, 1: // valid data
			var t tmpl
			if len(tmpls) == 0 || r.IntN(3) == 0 {
				var ok bool
				if t, ok = newTemplate(gen.Template(r, lib.Pool, 1+r.IntN(10))); !ok {
					return
				}
			} else {
				t = tmpls[r.IntN(len(tmpls))]
			}
			recs := gen.Records(r, t.elems, 1+r.IntN(8), 8000)
			if err := lib.FillDataSet(set, t.tid, t.elems, recs, r); err != nil {
				c.Violation(k, "dataset-error", err.Error(), nil)
				return
			}
			class = "valid"
			setID = t.tid
			expMin = refipfix.MinRecordLen(gen.Widths(t.elems))
			for _, rec := range recs {
				b, _ := refipfix.EncodeRecord(gen.Widths(t.elems), rec)
				expBody = append(expBody, b...)
			}
		case 2: // unknown template id
			elems := gen.Template(r, lib.Pool, 1+r.IntN(5))
			tid := uint16(40000 + r.IntN(20000))
			recs := gen.Records(r, elems, 1+r.IntN(3), 4000)
			if err := lib.FillDataSet(set, tid, elems, recs, r); err != nil {
				c.Violation(k, "dataset-error", err.Error(), nil)
				return
			}
			class, refuse = "unknown-template-id", true
		case 3: // wrong field count (one record of several)
			t, ok := newTemplate(gen.Template(r, lib.Pool, 2+r.IntN(6)))
			if !ok {
				return
			}
			if err := set.PrepareSet(entities.Data, t.tid); err != nil {
				return
			}
			nrec := 1 + r.IntN(4)
			badAt := r.IntN(nrec)
			for j := 0; j < nrec; j++ {
				el := t.elems
				if j == badAt {
					if r.IntN(2) == 0 {
						el = el[:len(el)-1]
					} else {
						el = append(append([]regtable.Elem{}, el...), elU32)
					}
				}
				rec := gen.One(r, el, 4000)
				if err := set.AddRecord(lib.RecordValues(el, rec, r), t.tid); err != nil {
					return
				}
			}
			class, refuse = "wrong-field-count", true
		case 4: // undefined set type
			set.PrepareSet(entities.Data, marker.tid)
			set.AddRecord(lib.RecordValues(marker.elems, [][]byte{{0, 0, 0, 1}}, nil), marker.tid)
			set.ResetSet()
			class, refuse = "undefined-set-type", true
		case 5, 6: // sized around the limit: message length L in 65519..65540
			L := 65519 + r.IntN(22)
			t, ok := newTemplate([]regtable.Elem{elU32, elStr})
			if !ok {
				return
			}
			// message = 16 + 4 + 4 + (3 + strlen)  => strlen = L - 27
			str := gen.Bytes(r, L-27)
			rec := [][]byte{refipfix.PU(4, uint64(r.Uint32())), str}
			if err := lib.FillDataSet(set, t.tid, t.elems, [][][]byte{rec}, r); err != nil {
				c.Violation(k, "dataset-error", err.Error(), nil)
				return
			}
			if L > 65535 {
				class, refuse = fmt.Sprintf("oversize-%d", L), true
			} else {
				class = fmt.Sprintf("size-%d", L)
				transp = proto == "udp"
				setID = t.tid
				expMin = refipfix.MinRecordLen(gen.Widths(t.elems))
				expBody, _ = refipfix.EncodeRecord(gen.Widths(t.elems), rec)
			}
			c.Add("size_boundary_sends", 1)
		default: // ill-typed value in one field of one record
			var bad regtable.Elem
			var badVal entities.InfoElementWithValue
			switch r.IntN(6) {
			case 0:
				bad = elIPv4
				ip := make(net.IP, 16)
				copy(ip, gen.Bytes(r, 16))
				ip[0] = 0x20 // a genuine IPv6 address, not v4-mapped
				badVal = entities.NewIPAddressInfoElement(lib.IE(bad), ip)
				class = "ill-typed:ipv6-in-ipv4Address"
			case 1:
				bad = elMac
				badVal = entities.NewMacAddressInfoElement(lib.IE(bad), net.HardwareAddr(gen.Bytes(r, 1+r.IntN(5))))
				class = "ill-typed:short-mac"
			case 2:
				bad = elMac
				badVal = entities.NewMacAddressInfoElement(lib.IE(bad), net.HardwareAddr(gen.Bytes(r, 7+r.IntN(3))))
				class = "ill-typed:long-mac"
			case 3:
				bad = elOct7
				badVal = entities.NewOctetArrayInfoElement(lib.IE(bad), gen.Bytes(r, []int{0, 1, 6, 8, 20}[r.IntN(5)]))
				class = "ill-typed:fixed-octets-wrong-length"
			case 4:
				bad = elIPv6
				badVal = entities.NewIPAddressInfoElement(lib.IE(bad), net.IP(gen.Bytes(r, []int{3, 5, 15, 17}[r.IntN(4)])))
				class = "ill-typed:bad-length-ipv6"
			default:
				bad = elIPv4
				badVal = entities.NewIPAddressInfoElement(lib.IE(bad), net.IP(gen.Bytes(r, []int{3, 5, 6}[r.IntN(3)])))
				class = "ill-typed:bad-length-ipv4"
			}
			others := gen.Template(r, lib.Pool, r.IntN(4))
			pos := r.IntN(len(others) + 1)
			elems := append(append(append([]regtable.Elem{}, others[:pos]...), bad), others[pos:]...)
			t, ok := newTemplate(elems)
			if !ok {
				return
			}
			if err := set.PrepareSet(entities.Data, t.tid); err != nil {
				return
			}
			nrec := 1 + r.IntN(3)
			badAt := r.IntN(nrec)
			for j := 0; j < nrec; j++ {
				// a good value for the "bad" element in the other records
				rec := gen.One(r, elems, 4000)
				vals := lib.RecordValues(elems, rec, r)
				if j == badAt {
					vals[pos] = badVal
				}
				if err := set.AddRecord(vals, t.tid); err != nil {
					return
				}
			}
			refuse = true
			c.Add("ill_typed_sends", 1)
		}
		classes = append(classes, class)
		before := len(s.Pending())
		n, err := s.EP.SendSet(set)
		c.Add("sends", 1)
		switch {
		case refuse && err == nil:
			// accepted although it had to be refused: look at what went out for the report
			raw, _ := s.TakeMsg(n, wait)
			cls := "accepted:" + class
			if len(class) > 9 && class[:9] == "oversize-" {
				cls = "accepted:oversize"
			}
			c.Violation(k, cls, fmt.Sprintf("send %d (%s) returned success and wrote %d bytes; it must be refused with an error", i, class, len(raw)), map[string]any{"sends": classes, "written_head": fmt.Sprintf("%x", raw[:min(len(raw), 96)])})
			return
		case refuse:
			c.Add("refused", 1)
			if n != 0 {
				// the property is about what reaches the connection (the marker check below), not about the count
				c.Add("refused_sends_reporting_a_byte_count", 1)
			}
			_ = before
			// an application retrying the very same set object must be refused again
			for retry := 0; retry < r.IntN(3); retry++ {
				n2, err2 := s.EP.SendSet(set)
				c.Add("retries_of_refused_sets", 1)
				if err2 == nil {
					raw, _ := s.TakeMsg(n2, wait)
					c.Violation(k, "accepted-on-retry:"+class, fmt.Sprintf("send %d (%s) was refused, but sending the same set again returned success and wrote %d bytes", i, class, len(raw)), map[string]any{"sends": classes, "written_head": fmt.Sprintf("%x", raw[:min(len(raw), 96)])})
					return
				}
				if n2 != 0 {
					c.Add("refused_sends_reporting_a_byte_count", 1)
				}
			}
			if !sendMarker() {
				return
			}
			lastRefused = true
			continue
		case err != nil && transp:
			c.Add("transport_refused", 1)
			if !sendMarker() {
				return
			}
			continue
		case err != nil:
			c.Violation(k, "valid-send-refused", fmt.Sprintf("send %d (%s): %v", i, class, err), classes)
			return
		}
		if n > 65535 {
			c.Violation(k, "accepted:oversize", fmt.Sprintf("message of %d bytes transmitted", n), classes)
			return
		}
		if !x.expectMessage(fmt.Sprintf("send %d (%s)", i, class), n, setID, expBody, expMin, classes) {
			return
		}
		c.Add("accepted", 1)
		if lastRefused {
			refusedThenAccepted = true
		}
	}
	time.Sleep(time.Millisecond)
	if extra := s.Pending(); len(extra) != 0 {
		c.Violation(k, "stray-bytes", fmt.Sprintf("%d stray bytes at the peer at the end of the history", len(extra)), classes)
	}
	if markerN > 0 {
		refusedThenAccepted = true
	}
	return
}

// startSecondExporter runs another exporting process (own TCP peer that discards what it reads, own observation
// domain, the same template ids as every process starts with) sending large valid messages until stopped.
func startSecondExporter(c *hx.Ctx) func() {
	ln, err := net.Listen("tcp", "127.0.0.1:0")
	if err != nil {
		return func() {}
	}
	go func() {
		for {
			conn, err := ln.Accept()
			if err != nil {
				return
			}
			go io.Copy(io.Discard, conn)
		}
	}()
	ep, err := exporter.InitExportingProcess(exporter.ExporterInput{CollectorAddress: ln.Addr().String(), CollectorProtocol: "tcp", ObservationDomainID: 0xEEEEEEEE})
	if err != nil {
		ln.Close()
		return func() {}
	}
	t := tmpl{tid: ep.NewTemplateID(), elems: []regtable.Elem{elU32, elStr}}
	ts, err := lib.TemplateSet(t.tid, t.elems, 0)
	if err != nil {
		panic(err)
	}
	if _, err := ep.SendSet(ts); err != nil {
		ep.CloseConnToCollector()
		ln.Close()
		return func() {}
	}
	stop, done := make(chan struct{}), make(chan struct{})
	go func() {
		defer close(done)
		pad := bytes.Repeat([]byte{0xEE}, 30000)
		n := int64(0)
		for i := uint64(1); ; i++ {
			select {
			case <-stop:
				c.Add("messages_of_the_second_exporting_process", n)
				return
			default:
			}
			set := entities.NewSet(false)
			if err := lib.FillDataSet(set, t.tid, t.elems, [][][]byte{{refipfix.PU(4, i), pad[:20000+int(i%10000)]}}, nil); err != nil {
				panic(err)
			}
			if _, err := ep.SendSet(set); err != nil {
				c.Add("messages_of_the_second_exporting_process", n)
				return
			}
			n++
			time.Sleep(20 * time.Microsecond)
		}
	}()
	return func() {
		close(stop)
		<-done
		ep.CloseConnToCollector()
		ln.Close()
	}
}

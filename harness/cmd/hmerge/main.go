// hmerge prints the number of distinct uint64 values in the given little-endian files.
package main

import (
	"encoding/binary"
	"fmt"
	"os"
	"sort"
)

func main() {
	var all []uint64
	for _, fn := range os.Args[1:] {
		b, err := os.ReadFile(fn)
		if err != nil {
			continue
		}
		for i := 0; i+8 <= len(b); i += 8 {
			all = append(all, binary.LittleEndian.Uint64(b[i:]))
		}
	}
	sort.Slice(all, func(i, j int) bool { return all[i] < all[j] })
	n := 0
	for i, v := range all {
		if i == 0 || v != all[i-1] {
			n++
		}
	}
	fmt.Println(n)
}

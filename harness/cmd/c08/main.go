// C08: exporter sequence numbers and header bookkeeping across a session.
//
// A case is one session of a real exporting process against a raw peer: a random history
// of successful template and data SendSet calls. Every captured message must carry
// seq == (data records in all data messages so far, including this one) mod 2^32,
// the configured observation domain, an export time inside the wall-clock interval
// sampled around the call, and SendSet must report exactly the captured length; at the
// end the peer must hold exactly one message per successful call and nothing else.
package main

import (
	"fmt"
	"io"
	"math/rand/v2"
	"net"
	"sync/atomic"
	"time"

	"github.com/vmware/go-ipfix/pkg/entities"
	"github.com/vmware/go-ipfix/pkg/exporter"

	"verif/harness/gen"
	"verif/harness/hx"
	"verif/harness/lib"
	"verif/harness/peers"
	"verif/harness/refipfix"
	"verif/harness/regtable"
)

const wait = 15 * time.Second

func main() {
	c := hx.New("C08")
	defer c.Finish()
	lib.Init()
	total := c.Pick(640, 40000)
	per := total / c.NBatch
	small := []regtable.Elem{}
	for _, e := range lib.Pool {
		if e.Len <= 8 && e.Len > 0 {
			small = append(small, e)
		}
	}
	from, to := c.Range(per)
	for k := from; k < to; k++ {
		r := c.Rand(k, 0)
		proto := "tcp"
		if k%4 == 3 {
			proto = "udp"
		}
		v6 := k%8 >= 4
		domain := r.Uint32()
		if r.IntN(6) == 0 {
			domain = []uint32{0, 1, 0xffffffff, 0x80000000}[r.IntN(4)]
		}
		if k%16 == 9 {
			// a UDP session with the minimum template refresh interval: the library's own
			// refresh goroutine transmits templates concurrently with the application's sends
			c.Journal(k, map[string]any{"kind": "udp-refresh", "v6": v6, "domain": domain})
			c.Eval(1)
			refreshSession(c, k, r, v6, domain, small)
			continue
		}
		if k%16 == 5 {
			// two goroutines send on one exporting process while the collector does not read: the second message is
			// written seconds after its SendSet call began - its export time is the second of SENDING
			c.Journal(k, map[string]any{"kind": "blocked-sender", "domain": domain})
			c.Eval(1)
			c.Guard(k, "exporter", nil, func() { blockedSenderSession(c, k, r, domain) })
			continue
		}
		if k%16 == 13 {
			// the collector is restarted in the middle of a plain-UDP session: the kernel reports the port
			// unreachable on a later send. Whatever the library does about it, every SendSet that SUCCEEDS counts
			c.Journal(k, map[string]any{"kind": "udp-peer-restart", "v6": v6, "domain": domain})
			c.Eval(1)
			c.Guard(k, "exporter", nil, func() { restartSession(c, k, r, v6, domain, small) })
			continue
		}
		wrap := r.IntN(3) == 0
		nsend := 20 + r.IntN(60)
		type send struct {
			Kind string
			N    int
		}
		var hist []send
		for i := 0; i < nsend; i++ {
			if i == 0 || r.IntN(5) == 0 {
				hist = append(hist, send{"T", 0})
			} else {
				n := 1 + r.IntN(12)
				switch r.IntN(6) {
				case 0:
					n = 1
				case 1:
					n = 1 + r.IntN(400)
				}
				hist = append(hist, send{"D", n})
			}
		}
		var start uint32
		if wrap {
			start = uint32(0x100000000 - uint64(1+r.IntN(600)))
		}
		desc := map[string]any{"proto": proto, "v6": v6, "domain": domain, "start_seq": start, "history": fmt.Sprint(hist)}
		c.Journal(k, desc)
		c.Eval(1)
		crossed, tBetween := false, false
		c.Guard(k, "exporter", desc, func() {
			s, err := lib.NewExpSession(proto, v6, domain, 600, 0)
			if err != nil {
				c.Inconclusive("session: " + err.Error())
				return
			}
			defer s.Close()
			if wrap {
				s.EP.VerifSetSeqNumber(start)
			}
			cnt := start
			var elems []regtable.Elem
			var tid uint16
			sawData := false
			reuse := entities.NewSet(false)
			totalBytes := 0
			for i, h := range hist {
				var set entities.Set
				if h.Kind == "T" {
					elems = gen.Template(r, small, 1+r.IntN(6))
					tid = s.EP.NewTemplateID()
					set, err = lib.TemplateSet(tid, elems, r.IntN(4))
					if err != nil {
						c.Violation(k, "templateset-error", err.Error(), desc)
						return
					}
					if sawData {
						tBetween = true
					}
				} else {
					recs := gen.Records(r, elems, h.N, 65000)
					reuse.ResetSet()
					set = reuse
					if err := lib.FillDataSet(set, tid, elems, recs, r); err != nil {
						c.Violation(k, "dataset-error", err.Error(), desc)
						return
					}
					h.N = len(recs)
					sawData = true
				}
				t0 := time.Now().Unix()
				n, err := s.EP.SendSet(set)
				t1 := time.Now().Unix()
				if err != nil {
					c.Violation(k, "send-error", fmt.Sprintf("send %d (%s,%d): %v", i, h.Kind, h.N, err), desc)
					return
				}
				raw, ok := s.TakeMsg(n, wait)
				if !ok {
					c.Inconclusive(fmt.Sprintf("case %d send %d: message did not arrive", k, i))
					return
				}
				c.Add("messages", 1)
				totalBytes += n
				if n != len(raw) {
					// "reports its exact byte count": the message is cut from the stream at its own length field
					c.Violation(k, "bytes-reported", fmt.Sprintf("send %d: SendSet reported %d bytes, the message at the peer has %d", i, n, len(raw)), desc)
					return
				}
				m, err := refipfix.ParseMessage(raw)
				if err != nil {
					c.Violation(k, "malformed", fmt.Sprintf("send %d (SendSet reported %d bytes): what arrived at the peer is not one message: %v", i, n, err), desc)
					return
				}
				if h.Kind == "D" {
					before := cnt
					cnt += uint32(h.N)
					if cnt < before {
						crossed = true
						c.Add("wraps_crossed", 1)
					}
					c.Add("data_records", int64(h.N))
				}
				if m.Seq != cnt {
					c.Violation(k, "seq:"+h.Kind, fmt.Sprintf("send %d (%s,%d records): sequence number %d, expected %d (start %d)", i, h.Kind, h.N, m.Seq, cnt, start), desc)
					return
				}
				if m.Domain != domain {
					c.Violation(k, "domain", fmt.Sprintf("send %d: observation domain %d, configured %d", i, m.Domain, domain), desc)
					return
				}
				if int64(m.ExportTime) < t0 || int64(m.ExportTime) > t1 {
					c.Violation(k, "export-time", fmt.Sprintf("send %d: export time %d outside the send interval [%d,%d]", i, m.ExportTime, t0, t1), desc)
					return
				}
				wantID := uint16(2)
				if h.Kind == "D" {
					wantID = tid
				}
				if m.SetID != wantID {
					c.Violation(k, "setid", fmt.Sprintf("send %d: set id %d, expected %d", i, m.SetID, wantID), desc)
					return
				}
			}
			// exactly one message per successful call and nothing else
			time.Sleep(2 * time.Millisecond)
			if extra := s.Pending(); len(extra) != 0 {
				c.Violation(k, "extra-bytes", fmt.Sprintf("%d bytes at the peer beyond the %d messages acknowledged by SendSet", len(extra), len(hist)), desc)
			}
		})
		if tBetween || crossed {
			c.Nontrivial(hx.H64(fmt.Sprint(hist), start, proto))
		}
		if k < from+5 {
			c.Sample(5, desc)
		}
	}
}

// refreshSession checks the sequence-number rule in capture order while the UDP template
// refresh runs concurrently with application sends (every transmitted message, whoever
// sent it, must carry the count of data records transmitted so far).
// blockedSenderSession: a TCP peer that accepts and does not read. Sender A fills the socket buffers until it
// is stuck inside Write; then sender B calls SendSet with a marker record and has to wait for A; 2.2 s later the
// peer starts reading. B's message cannot have been sent before that instant, so its export time ("the wall-clock
// second of sending") must not lie before it - however early B's call began. Sequence numbers are checked in
// stream order as everywhere in C08. No verdict depends on how long anything took, only on this order of events.
func blockedSenderSession(c *hx.Ctx, k int, r *rand.Rand, domain uint32) {
	ln, err := net.Listen("tcp", "127.0.0.1:0")
	if err != nil {
		c.Inconclusive("listen: " + err.Error())
		return
	}
	defer ln.Close()
	resume := make(chan struct{})
	capCh := make(chan []byte, 1)
	go func() {
		conn, err := ln.Accept()
		if err != nil {
			capCh <- nil
			return
		}
		defer conn.Close()
		<-resume
		b, _ := io.ReadAll(conn)
		capCh <- b
	}()
	release := func() {
		select {
		case <-resume:
		default:
			close(resume)
		}
	}
	defer release()
	ep, err := exporter.InitExportingProcess(exporter.ExporterInput{CollectorAddress: ln.Addr().String(), CollectorProtocol: "tcp", ObservationDomainID: domain})
	if err != nil {
		c.Inconclusive("session: " + err.Error())
		return
	}
	el := []regtable.Elem{lib.CustomElems[11], lib.CustomElems[8]} // counter + variable-length filler
	tid := ep.NewTemplateID()
	ts, _ := lib.TemplateSet(tid, el, 0)
	if _, err := ep.SendSet(ts); err != nil {
		c.Violation(k, "send-error", err.Error(), nil)
		ep.CloseConnToCollector()
		return
	}
	const marker = 0xBBBBBBBB
	mkSet := func(counter uint32, fill int) entities.Set {
		set := entities.NewSet(false)
		if err := lib.FillDataSet(set, tid, el, [][][]byte{{refipfix.PU(4, uint64(counter)), make([]byte, fill)}}, nil); err != nil {
			panic(err)
		}
		return set
	}
	var progress atomic.Int64
	var stopA atomic.Bool
	aDone := make(chan error, 1)
	go func() {
		for i := uint32(1); !stopA.Load() && i < 100000; i++ {
			if _, err := ep.SendSet(mkSet(i, 10000)); err != nil {
				aDone <- err
				return
			}
			progress.Add(1)
		}
		aDone <- nil
	}()
	// wait until A has made no progress for 300 ms: it is inside Write, holding the exporter's send lock
	stuck := false
	for last, since, t0 := int64(-1), time.Now(), time.Now(); time.Since(t0) < 30*time.Second; time.Sleep(5 * time.Millisecond) {
		if p := progress.Load(); p != last {
			last, since = p, time.Now()
		} else if time.Since(since) > 300*time.Millisecond {
			stuck = true
			break
		}
	}
	if !stuck {
		stopA.Store(true)
		release()
		<-aDone
		ep.CloseConnToCollector()
		c.Inconclusive("blocked-sender: sender A never got stuck")
		return
	}
	type bres struct {
		t0, t1 time.Time
		err    error
	}
	bDone := make(chan bres, 1)
	go func() {
		t0 := time.Now()
		_, err := ep.SendSet(mkSet(marker, 8))
		bDone <- bres{t0, time.Now(), err}
	}()
	time.Sleep(2200 * time.Millisecond)
	stopA.Store(true)
	resumedAt := time.Now()
	release()
	var b bres
	select {
	case b = <-bDone:
	case <-time.After(30 * time.Second):
		c.Violation(k, "send-hang", "SendSet of the second goroutine did not return within 30 s after the collector resumed reading", nil)
		return
	}
	aErr := <-aDone
	ep.CloseConnToCollector()
	stream := <-capCh
	if b.err != nil || aErr != nil {
		c.Violation(k, "send-error", fmt.Sprintf("a send failed although the collector only was slow: A %v, B %v", aErr, b.err), nil)
		return
	}
	msgs, tail := refipfix.Frame(stream)
	if len(tail) != 0 {
		c.Violation(k, "malformed", fmt.Sprintf("%d stray bytes at the end of the stream", len(tail)), nil)
		return
	}
	var cnt uint32
	found := false
	for i, raw := range msgs {
		m, err := refipfix.ParseMessage(raw)
		if err != nil {
			c.Violation(k, "malformed", fmt.Sprintf("message %d: %v", i, err), nil)
			return
		}
		if m.SetID != 2 {
			cnt++ // every data message of this session carries one record
		}
		if m.Seq != cnt {
			c.Violation(k, "seq:concurrent-senders", fmt.Sprintf("message %d in stream order carries sequence %d, %d data records were transmitted up to and including it", i, m.Seq, cnt), nil)
			return
		}
		if m.SetID != 2 && len(m.Body) >= 4 && refipfix.GU(m.Body[:4]) == marker {
			found = true
			if b.t1.Before(resumedAt) {
				// the second goroutine was not held up after all (on a loaded machine "no progress for 300 ms" does
				// not prove that the first one sits in Write): the scenario did not take place, only the bracket holds
				c.Add("blocked_sender_sessions_where_the_second_sender_was_not_held_up", 1)
				if int64(m.ExportTime) < b.t0.Unix() || int64(m.ExportTime) > b.t1.Unix() {
					c.Violation(k, "export-time", fmt.Sprintf("export time %d outside the send interval [%d,%d]", m.ExportTime, b.t0.Unix(), b.t1.Unix()), nil)
					return
				}
				continue
			}
			if int64(m.ExportTime) < resumedAt.Unix() || int64(m.ExportTime) > b.t1.Unix() {
				c.Violation(k, "export-time:blocked-sender", fmt.Sprintf("the message of the second goroutine carries export time %d; it was sent between %d (the collector resumed reading; the first goroutine was stuck in Write until then) and %d (its SendSet returned); its SendSet call began at %d", m.ExportTime, resumedAt.Unix(), b.t1.Unix(), b.t0.Unix()), nil)
				return
			}
		}
	}
	if !found {
		c.Violation(k, "message-missing", "the second goroutine's SendSet returned success but its message is not in the stream", nil)
		return
	}
	c.Add("blocked_sender_sessions", 1)
	c.Add("messages", int64(len(msgs)))
	c.Nontrivial(hx.H64("blocked-sender", k, len(msgs)))
}

func refreshSession(c *hx.Ctx, k int, r *rand.Rand, v6 bool, domain uint32, small []regtable.Elem) {
	s, err := lib.NewExpSession("udp", v6, domain, 1, 0)
	if err != nil {
		c.Inconclusive("session: " + err.Error())
		return
	}
	defer s.Close()
	start := uint32(0)
	if r.IntN(2) == 0 {
		start = uint32(0x100000000 - uint64(1+r.IntN(3000)))
		s.EP.VerifSetSeqNumber(start)
	}
	type tm struct {
		tid   uint16
		elems []regtable.Elem
	}
	var tms []tm
	for i := 0; i < 1+r.IntN(3); i++ {
		t := tm{s.EP.NewTemplateID(), gen.Template(r, small, 1+r.IntN(4))}
		set, err := lib.TemplateSet(t.tid, t.elems, r.IntN(4))
		if err != nil {
			c.Violation(k, "templateset-error", err.Error(), nil)
			return
		}
		if _, err := s.EP.SendSet(set); err != nil {
			c.Violation(k, "send-error", err.Error(), nil)
			return
		}
		tms = append(tms, t)
	}
	var nrecs []int
	t0 := time.Now()
	for time.Since(t0) < 2300*time.Millisecond {
		t := tms[r.IntN(len(tms))]
		recs := gen.Records(r, t.elems, 1+r.IntN(6), 4000)
		set := entities.NewSet(false)
		if err := lib.FillDataSet(set, t.tid, t.elems, recs, r); err != nil {
			c.Violation(k, "dataset-error", err.Error(), nil)
			return
		}
		if _, err := s.EP.SendSet(set); err != nil {
			c.Violation(k, "send-error", err.Error(), nil)
			return
		}
		nrecs = append(nrecs, len(recs))
		if r.IntN(3) == 0 {
			time.Sleep(time.Duration(r.IntN(1500)) * time.Microsecond)
		}
	}
	time.Sleep(30 * time.Millisecond)
	cnt := start
	di, refresh := 0, 0
	for i, dg := range s.UDP.All() {
		m, err := refipfix.ParseMessage(dg.Data)
		if err != nil {
			c.Violation(k, "malformed", fmt.Sprintf("datagram %d: %v", i, err), nil)
			return
		}
		if m.SetID != 2 {
			if di >= len(nrecs) {
				c.Violation(k, "extra-bytes", "a data datagram the application did not send", nil)
				return
			}
			cnt += uint32(nrecs[di])
			di++
		} else if i >= len(tms) {
			refresh++
		}
		if m.Seq != cnt {
			kind := "D"
			if m.SetID == 2 {
				kind = "T-refresh"
			}
			c.Violation(k, "seq:"+kind, fmt.Sprintf("datagram %d (set id %d) carries sequence number %d; %d data records were transmitted up to and including it (concurrent template refresh)", i, m.SetID, m.Seq, cnt), nil)
			return
		}
		if m.Domain != domain {
			c.Violation(k, "domain", fmt.Sprintf("datagram %d: observation domain %d, configured %d", i, m.Domain, domain), nil)
			return
		}
	}
	if di != len(nrecs) {
		c.Inconclusive(fmt.Sprintf("session %d: %d of %d data datagrams arrived", k, di, len(nrecs)))
		return
	}
	c.Add("udp_refresh_sessions", 1)
	c.Add("refresh_templates_seen_between_app_sends", int64(refresh))
	if refresh > 0 {
		c.Nontrivial(hx.H64("refresh", k, len(nrecs), refresh))
	}
}

// restartSession: a plain-UDP session during which the peer socket is closed and later bound again on the same
// port (a collector restart). Sends towards the closed port succeed or fail as the kernel reports the ICMP error;
// a session with a failed SendSet is outside C08's statement from that call on and is only counted. While every call
// succeeds, each message that reaches the new peer must carry the count of data records of ALL successful calls.
func restartSession(c *hx.Ctx, k int, r *rand.Rand, v6 bool, domain uint32, small []regtable.Elem) {
	s, err := lib.NewExpSession("udp", v6, domain, 600, 0)
	if err != nil {
		c.Inconclusive("session: " + err.Error())
		return
	}
	defer s.Close()
	start := uint32(0)
	if r.IntN(2) == 0 {
		start = uint32(0x100000000 - uint64(1+r.IntN(40)))
		s.EP.VerifSetSeqNumber(start)
	}
	cnt := start
	elems := gen.Template(r, small, 1+r.IntN(4))
	tid := s.EP.NewTemplateID()
	tset, err := lib.TemplateSet(tid, elems, r.IntN(4))
	if err != nil {
		c.Violation(k, "templateset-error", err.Error(), nil)
		return
	}
	if _, err := s.EP.SendSet(tset); err != nil {
		c.Violation(k, "send-error", err.Error(), nil)
		return
	}
	if _, ok := s.UDP.TakeOne(wait); !ok {
		c.Inconclusive(fmt.Sprintf("restart session %d: template did not arrive", k))
		return
	}
	// sendData returns (sent ok, arrived message or nil)
	sendData := func(phase string, expectArrival bool) (bool, bool) {
		recs := gen.Records(r, elems, 1+r.IntN(9), 4000)
		set := entities.NewSet(false)
		if err := lib.FillDataSet(set, tid, elems, recs, r); err != nil {
			c.Violation(k, "dataset-error", err.Error(), nil)
			return false, false
		}
		if _, err := s.EP.SendSet(set); err != nil {
			c.Add("restart_sessions_ended_by_a_failed_send:"+phase, 1)
			return false, true
		}
		cnt += uint32(len(recs))
		if !expectArrival {
			return true, true
		}
		raw, ok := s.UDP.TakeOne(wait)
		if !ok {
			c.Inconclusive(fmt.Sprintf("restart session %d: a datagram sent after the restart did not arrive", k))
			return false, true
		}
		m, err := refipfix.ParseMessage(raw)
		if err != nil {
			c.Violation(k, "malformed", fmt.Sprintf("after the peer restart: %v", err), nil)
			return false, false
		}
		if m.Seq != cnt {
			c.Violation(k, "seq:D", fmt.Sprintf("UDP session whose collector was restarted: every SendSet call succeeded; the data message after the restart carries sequence number %d, the successful calls up to and including it carried %d data records (start %d)", m.Seq, cnt-start, start), nil)
			return false, false
		}
		if m.Domain != domain {
			c.Violation(k, "domain", fmt.Sprintf("observation domain %d, configured %d", m.Domain, domain), nil)
			return false, false
		}
		c.Add("messages_judged_after_a_peer_restart", 1)
		return true, true
	}
	for i := 0; i < r.IntN(3); i++ {
		if ok, _ := sendData("before", true); !ok {
			return
		}
	}
	addr := s.UDP.Addr()
	s.UDP.Close()
	down := 1 + r.IntN(2)
	for i := 0; i < down; i++ {
		ok, cont := sendData("peer-down", false)
		if !cont {
			return
		}
		time.Sleep(15 * time.Millisecond) // the ICMP port-unreachable comes back
		if !ok {
			c.Add("restart_sessions", 1)
			return
		}
	}
	np, err := peers.NewUDPPeer("udp", addr)
	if err != nil {
		c.Inconclusive("restart session: the port could not be bound again: " + err.Error())
		return
	}
	s.UDP = np
	for i := 0; i < 2+r.IntN(3); i++ {
		ok, _ := sendData("after", true)
		if !ok {
			c.Add("restart_sessions", 1)
			return
		}
	}
	c.Add("restart_sessions", 1)
	c.Add("restart_sessions_without_a_failed_send", 1)
	c.Nontrivial(hx.H64("restart", k, down, cnt))
}

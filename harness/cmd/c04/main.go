// C04: data is decoded with the right template — scoping, replacement, invalidation.
//
// A case is a history of template / bad-template / data messages over several
// (observation domain, template id) keys, presented to one collecting process through the
// VerifDecodePacket hook. The model (package mirror) keeps map[(domain,id)] -> layout;
// after EVERY message (a) the outcome must be exactly what the model says: accepted iff a
// valid template is in force and the body splits under it, with exactly the records
// refipfix reads (layouts differ in width and field count, so decoding with a stale or
// foreign template is visible), and (b) the collector's template table (VerifTemplates
// hook) must equal the model's key set and element lists.
package main

import (
	"fmt"
	"math/rand/v2"
	"strings"
	"time"

	"github.com/vmware/go-ipfix/pkg/collector"

	"verif/harness/gen"
	"verif/harness/hx"
	"verif/harness/lib"
	"verif/harness/mirror"
	"verif/harness/refipfix"
	"verif/harness/regtable"
	"verif/harness/vclock"
)

type key struct {
	dom uint32
	tid uint16
}

type sym struct {
	kind string // T (template), X (bad template), D (data)
	lay  int    // layout / data shape index
	key  int
}

func (s sym) String() string { return fmt.Sprintf("%s%d@%d", s.kind, s.lay, s.key) }

var layouts [][]regtable.Elem

func initLayouts() {
	g := func(ent uint32, name string) regtable.Elem { return lib.Table.Get(ent, name) }
	layouts = [][]regtable.Elem{
		{g(0, "sourceTransportPort"), g(0, "protocolIdentifier")},
		{g(0, "octetDeltaCount"), lib.CustomElems[8], g(0, "sourceIPv4Address")},
		{lib.CustomElems[11]},
		{g(56506, "sourcePodName"), g(0, "flowEndSeconds"), g(56506, "flowType"), g(0, "destinationIPv6Address")},
		// two layouts of the SAME shape (same element ids, same lengths, same field count) that
		// differ only in the enterprise number: a replacement that must not be mistaken for a refresh
		{g(0, "octetDeltaCount"), g(0, "packetDeltaCount")},
		{g(29305, "reverseOctetDeltaCount"), g(29305, "reversePacketDeltaCount")},
	}
}

// template message for layout li; in lenient modes an unknown fixed-length element is
// spliced in, so that drop mode has something to omit.
func tmplFields(mode string, li int) []refipfix.Field {
	f := gen.Fields(layouts[li])
	if mode != mirror.Strict {
		// the SAME unknown element in every layout, announced with a different length each time:
		// a collector that remembers an unknown element by id only would slice the data wrongly
		u := refipfix.Field{ID: 900, Ent: 4444, Len: uint16(2 + li)}
		f = append(f[:1:1], append([]refipfix.Field{u}, f[1:]...)...)
	}
	return f
}

func badTemplate(r *rand.Rand, mode string, dom uint32, tid uint16, variant int) []byte {
	f := tmplFields(mode, r.IntN(len(layouts)))
	switch variant % 4 {
	case 3: // not bad at all, but a template the library need not support: a registry element that is variable-length
		// (vfOctetsVar / sourcePodName) announced with a fixed length. Whatever the collector makes of it for THIS
		// key (the model marks it gray), every other key that uses the same element must be unaffected.
		li := []int{1, 3}[r.IntN(2)]
		f = tmplFields(mode, li)
		for i := range f {
			if f[i].Len == refipfix.VarLen {
				f[i].Len = uint16(4 + r.IntN(9))
			}
		}
		return refipfix.BuildMessage(dom, 0, 1, 2, refipfix.EncodeTemplateRecord(tid, f))
	case 0: // truncated inside the specifier list (after the 4-byte record header)
		m := refipfix.BuildMessage(dom, 0, 1, 2, refipfix.EncodeTemplateRecord(tid, f))
		cut := 24 + r.IntN(len(m)-24)
		return m[:cut]
	case 1: // known element of an unsupported type (dateTimeMicroseconds)
		f = append(f, refipfix.Field{ID: 154, Ent: 0, Len: 8})
		return refipfix.BuildMessage(dom, 0, 1, 2, refipfix.EncodeTemplateRecord(tid, f))
	default:
		if mode == mirror.Strict { // unknown element in strict mode
			f = append(f, refipfix.Field{ID: 31000, Ent: 0, Len: 4})
			return refipfix.BuildMessage(dom, 0, 1, 2, refipfix.EncodeTemplateRecord(tid, f))
		}
		// field count larger than the specifiers present
		b := refipfix.EncodeTemplateRecord(tid, f)
		b[3] += 2
		return refipfix.BuildMessage(dom, 0, 1, 2, b)
	}
}

func dataFor(r *rand.Rand, mode string, dom uint32, tid uint16, li int, nrec int) []byte {
	// a body that is well-formed for layout li as the model sees it in this mode
	t := mirror.Table{}
	t.Apply(reg, mode, refipfix.BuildMessage(dom, 0, 1, 2, refipfix.EncodeTemplateRecord(tid, tmplFields(mode, li))))
	l := t[mirror.Key{Domain: dom, TID: tid}]
	var body []byte
	for i := 0; i < nrec; i++ {
		for j, w := range l.Widths {
			var p []byte
			if !l.Known[j] {
				p = gen.Bytes(r, int(w))
			} else {
				p = gen.Value(r, regtable.Elem{Type: l.Types[j], Len: w}, 60)
			}
			f, _ := refipfix.EncodeField(w, p)
			body = append(body, f...)
		}
	}
	return refipfix.BuildMessage(dom, 0, 1, tid, body)
}

var reg *mirror.Registry

type runner struct {
	c    *hx.Ctx
	mode string
	udp  bool
}

// run executes one history; returns false when a violation was recorded.
func (rn *runner) run(k int, r *rand.Rand, keys []key, word []sym, rawBodies bool) bool {
	c := rn.c
	var clk collector.VerifClock
	proto := "tcp"
	if rn.udp {
		proto = "udp"
		clk = lib.ClockAdapter{Clock: vclock.New(time.Unix(1700000000, 0))}
	}
	dec, err := lib.NewDecoder(proto, collector.DecodingMode(rn.mode), 1800, clk)
	if err != nil {
		panic(err)
	}
	defer dec.Close()
	model := mirror.Table{}
	ws := make([]string, len(word))
	for i, s := range word {
		ws[i] = s.String()
	}
	wstr := strings.Join(ws, " ")
	var msgs []string
	fail := func(i int, class, why string) bool {
		c.Violation(k, class, fmt.Sprintf("op %d (%s): %s", i, word[i], why), map[string]any{"mode": rn.mode, "proto": proto, "history": wstr, "messages": msgs})
		return false
	}
	for i, s := range word {
		kk := keys[s.key]
		var msg []byte
		switch s.kind {
		case "T":
			msg = refipfix.BuildMessage(kk.dom, 0, 1, 2, refipfix.EncodeTemplateRecord(kk.tid, tmplFields(rn.mode, s.lay)))
		case "X":
			msg = badTemplate(r, rn.mode, kk.dom, kk.tid, s.lay)
		case "D":
			if rawBodies && r.IntN(4) == 0 {
				msg = refipfix.BuildMessage(kk.dom, 0, 1, kk.tid, gen.Bytes(r, r.IntN(40)))
			} else {
				msg = dataFor(r, rn.mode, kk.dom, kk.tid, s.lay, 1+r.IntN(3))
			}
		}
		msgs = append(msgs, fmt.Sprintf("%x", msg))
		before := model.Clone()
		effect, _ := model.Apply(reg, rn.mode, msg)
		m, derr, pv, st := dec.Decode(msg)
		if pv != nil {
			c.Violation(k, "panic:decode", fmt.Sprint(pv), map[string]any{"history": wstr, "messages": msgs, "stack": st})
			return false
		}
		c.Add("messages", 1)
		out := lib.Summarize(m, derr)
		// (a) acceptance must be exactly the model's, except where the statement leaves it open (free)
		var mustAccept, free bool
		var reason string
		switch s.kind {
		case "T", "X":
			mustAccept = effect == "set"
			reason = "template effect " + effect
			if l := model[mirror.Key{Domain: kk.dom, TID: kk.tid}]; effect == "set" && l != nil && l.Gray {
				// reduced-size / fixed-length announcement of a registry element: the library may refuse it, and then
				// the older template of the key is gone like after any template that fails to decode
				free = true
				if derr != nil {
					delete(model, mirror.Key{Domain: kk.dom, TID: kk.tid})
				}
				c.Add("gray_templates_presented", 1)
			}
			if effect == "delete" && mirror.UnsupportedOnly(reg, rn.mode, msg) {
				// the only defect is a registry element of a type the library cannot decode, in a lenient mode: a
				// collector may carry it as opaque octets instead of refusing. Whatever it did is the new truth
				// for this key; data for it is not judged until the key is defined again.
				free = true
				if derr == nil {
					model[mirror.Key{Domain: kk.dom, TID: kk.tid}] = &mirror.Layout{Gray: true, Opaque: true}
					c.Add("unsupported_type_templates_accepted_as_opaque", 1)
				}
			}
		case "D":
			l, ok := before[mirror.Key{Domain: kk.dom, TID: kk.tid}]
			if !ok {
				reason = "no valid template in force for this (domain,id)"
			} else if l.Opaque || l.Gray {
				free = true // (Judge does not judge exactness for a gray layout either)
			} else if _, pad, okp, why := refipfix.SplitRecords(msg[20:], l.Widths); !okp {
				reason = "body does not split under the template in force: " + why
			} else if !refipfix.SameBody(msg[len(msg)-pad:], nil, pad+1) {
				// leftover bytes that are not zero: padding SHOULD be zero (RFC 7011 3.3.2); accepting and refusing are both defensible
				free = true
				c.Add("data_with_nonzero_leftover_not_judged_for_acceptance", 1)
			} else {
				mustAccept = true
				reason = "valid template in force and the body splits under it"
			}
		}
		if free {
			mustAccept = derr == nil
		}
		if mustAccept && derr != nil {
			cls := "rejected-valid-" + map[string]string{"T": "template", "X": "template", "D": "data"}[s.kind]
			return fail(i, cls, fmt.Sprintf("rejected (%v) although: %s", derr, reason))
		}
		if !mustAccept && derr == nil {
			cls := "accepted-" + map[string]string{"T": "template", "X": "bad-template", "D": "data"}[s.kind]
			if s.kind == "D" {
				if _, ok := before[mirror.Key{Domain: kk.dom, TID: kk.tid}]; !ok {
					cls = "data-without-template"
				}
			}
			return fail(i, cls, "accepted although: "+reason)
		}
		if s.kind == "D" && derr == nil {
			c.Add("data_accepted", 1)
		} else if s.kind == "D" {
			c.Add("data_rejected", 1)
		}
		if class, why, _ := mirror.Judge(reg, rn.mode, before, msg, out); class != "" {
			return fail(i, class, why)
		}
		if s.kind == "D" && derr == nil {
			// the delivered fields must be those of the most recent template, by name as well
			if l := before[mirror.Key{Domain: kk.dom, TID: kk.tid}]; l != nil && !l.Opaque {
				for ri, names := range out.RecNames {
					gi := 0
					for j, nm := range l.Names {
						if rn.mode == mirror.Drop && !l.Known[j] {
							continue
						}
						if gi >= len(names) || names[gi] != nm {
							return fail(i, "stale-template-names", fmt.Sprintf("record %d field %d delivered as %q, the template in force defines %q", ri, gi, at(names, gi), nm))
						}
						gi++
					}
				}
			}
		}
		if derr == nil && out.IsTemplate { // delivered template: names and types of known fields
			l := model[mirror.Key{Domain: kk.dom, TID: kk.tid}]
			for j := range out.TFields {
				if l != nil && !l.Gray && j < len(l.Names) && (out.TNames[j] != l.Names[j] || out.TTypes[j] != l.Types[j] || out.TFields[j].Len != l.Widths[j]) {
					return fail(i, "template-element", fmt.Sprintf("field %d delivered as (%q,%v,len %d), registry says (%q,%v,len %d)", j, out.TNames[j], out.TTypes[j], out.TFields[j].Len, l.Names[j], l.Types[j], l.Widths[j]))
				}
			}
		}
		// (b) the template table must be the model's
		snap := dec.CP.VerifTemplates()
		// (a template without fields decodes nothing; RFC 7011 8.1 reads it as a withdrawal: held or not is the same to every data set)
		held := map[mirror.Key]bool{}
		for _, ti := range snap {
			held[mirror.Key{Domain: ti.ObsDomainID, TID: ti.TemplateID}] = true
		}
		for mk, l := range model {
			if !held[mk] && len(l.Fields) > 0 && !l.Gray { // (a reduced-size template is one the library does not support: it may refuse it)
				return fail(i, "template-table", fmt.Sprintf("collector holds %d templates and not (%d,%d); model %d (%v)", len(snap), mk.Domain, mk.TID, len(model), keysOf(model)))
			}
		}
		for _, ti := range snap {
			l, ok := model[mirror.Key{Domain: ti.ObsDomainID, TID: ti.TemplateID}]
			if !ok {
				return fail(i, "template-table", fmt.Sprintf("collector holds (%d,%d), which the model does not", ti.ObsDomainID, ti.TemplateID))
			}
			if l.Opaque {
				continue
			}
			if len(l.Fields) != len(ti.Elements) {
				return fail(i, "template-table", fmt.Sprintf("(%d,%d): %d elements stored, model %d", ti.ObsDomainID, ti.TemplateID, len(ti.Elements), len(l.Fields)))
			}
			for j, e := range ti.Elements {
				if e.ElementId != l.Fields[j].ID || e.EnterpriseId != l.Fields[j].Ent {
					return fail(i, "template-table", fmt.Sprintf("(%d,%d) element %d stored as (%d,%d), model (%d,%d): stale definition", ti.ObsDomainID, ti.TemplateID, j, e.EnterpriseId, e.ElementId, l.Fields[j].Ent, l.Fields[j].ID))
				}
			}
		}
		c.Add("table_snapshots_compared", 1)
	}
	return true
}

func at(a []string, i int) string {
	if i < len(a) {
		return a[i]
	}
	return "<missing>"
}

func keysOf(t mirror.Table) []string {
	var out []string
	for k := range t {
		out = append(out, fmt.Sprintf("(%d,%d)", k.Domain, k.TID))
	}
	return out
}

func nontrivial(word []sym, keys []key) bool {
	// a data set after >= 2 template-affecting ops on related keys (same domain or same id)
	for i, s := range word {
		if s.kind != "D" {
			continue
		}
		n := 0
		for _, p := range word[:i] {
			if p.kind == "D" {
				continue
			}
			if keys[p.key].dom == keys[s.key].dom || keys[p.key].tid == keys[s.key].tid {
				n++
			}
		}
		if n >= 2 {
			return true
		}
	}
	return false
}

func main() {
	c := hx.New("C04")
	defer c.Finish()
	lib.Init()
	reg = lib.Reg()
	initLayouts()
	keys3 := []key{{10, 300}, {10, 301}, {11, 300}}
	var alpha []sym
	for ki := range keys3 {
		alpha = append(alpha, sym{"T", 0, ki}, sym{"T", 1, ki}, sym{"X", 0, ki}, sym{"D", 0, ki}, sym{"D", 1, ki})
	}
	depth := c.Pick(4, 5)
	nEx := 1
	for i := 0; i < depth; i++ {
		nEx *= len(alpha)
	}
	combos := []struct {
		mode string
		udp  bool
	}{{mirror.Strict, false}, {mirror.Keep, true}}
	if c.Thorough() {
		combos = append(combos, struct {
			mode string
			udp  bool
		}{mirror.Drop, false})
	}
	nRand := c.Pick(160000, 4000000)
	totalCases := nEx*len(combos) + nRand
	c.Note("exhaustive", false)
	c.Note("exhaustive_part", fmt.Sprintf("all %d^%d = %d words over 3 keys x {T/A, T/B, bad, D/A, D/B} for each of %d (mode, transport) combinations; plus %d random histories of length 6..40 over 2 domains x 4 ids", len(alpha), depth, nEx, len(combos), nRand))
	from, to := c.Range(totalCases)
	for k := from; k < to; k++ {
		if k%c.NBatch != c.Batch {
			continue
		}
		r := c.Rand(k, 0)
		var word []sym
		var keys []key
		rn := &runner{c: c}
		raw := false
		if k < nEx*len(combos) {
			cb := combos[k/nEx]
			rn.mode, rn.udp = cb.mode, cb.udp
			x := k % nEx
			for i := 0; i < depth; i++ {
				s := alpha[x%len(alpha)]
				if s.kind == "X" {
					s.lay = (x + i) % 4 // bad-template variant (3: a gray one)
				}
				word = append(word, s)
				x /= len(alpha)
			}
			keys = keys3
			c.Add("exhaustive_histories", 1)
		} else {
			rn.mode = []string{mirror.Strict, mirror.Keep, mirror.Drop}[r.IntN(3)]
			rn.udp = r.IntN(2) == 0
			for d := 0; d < 2; d++ {
				for i := 0; i < 4; i++ {
					keys = append(keys, key{uint32(20 + d), uint16(256 + i)})
				}
			}
			n := 6 + r.IntN(35)
			for i := 0; i < n; i++ {
				s := sym{key: r.IntN(len(keys))}
				if r.IntN(3) == 0 {
					s.key = r.IntN(2) * 4 // concentrate on two keys with the same id in different domains
				}
				switch x := r.IntN(10); {
				case x < 3:
					s.kind, s.lay = "T", r.IntN(len(layouts))
				case x < 5:
					s.kind, s.lay = "X", r.IntN(4)
				default:
					s.kind, s.lay = "D", r.IntN(len(layouts))
				}
				word = append(word, s)
			}
			raw = true
			c.Add("random_histories", 1)
		}
		c.Journal(k, map[string]any{"mode": rn.mode, "udp": rn.udp, "word": fmt.Sprint(word)})
		c.Eval(1)
		rn.run(k, r, keys, word, raw)
		if nontrivial(word, keys) {
			c.Nontrivial(hx.H64(rn.mode, rn.udp, fmt.Sprint(word)))
		}
		if c.NumViolations() > 200 {
			break
		}
		if (k/c.NBatch)%20000 == 0 {
			c.Sample(8, map[string]any{"mode": rn.mode, "udp": rn.udp, "history": fmt.Sprint(word)})
		}
	}
}

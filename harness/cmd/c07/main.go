// C07: inter-node correlation — withheld until both sides seen, merged field-complete.
//
// A case is (flow type, egress/ingress rule actions, MaxRetries, word over {S, D, Ea, Ei},
// correlate-field values): S/D = a record from the source / destination node, Ea/Ei =
// advance virtual time past the active / both deadlines and run an expiry scan with a
// recording callback. The model is a small state machine {sides seen, ready, retries}
// plus the field-merge rule (non-empty value of either side; either value if both are
// non-empty).
package main

import (
	"bytes"
	"fmt"
	"math/rand/v2"
	"net"
	"strings"
	"time"

	"github.com/vmware/go-ipfix/pkg/intermediate"

	"verif/harness/agg"
	"verif/harness/hx"
	"verif/harness/lib"
)

const (
	A = 60
	I = 100
)

type sideVals struct {
	Str map[string]string
	U8  map[string]uint8
	U16 map[string]uint16
	I32 map[string]int32
	IP  map[string]net.IP
}

func genSide(r *rand.Rand, node byte, v6 bool) sideVals {
	v := sideVals{Str: map[string]string{}, U8: map[string]uint8{}, U16: map[string]uint16{}, I32: map[string]int32{}, IP: map[string]net.IP{}}
	for _, n := range agg.StrFields() {
		if r.IntN(2) == 0 {
			v.Str[n] = fmt.Sprintf("%s-%c%d", n[:3], node, r.IntN(100))
		}
	}
	// what identifies the reporting node
	if node == 'S' {
		v.Str["sourcePodName"] = "src-pod"
		v.Str["destinationPodName"] = ""
	} else {
		v.Str["destinationPodName"] = "dst-pod"
		v.Str["sourcePodName"] = ""
	}
	for _, n := range agg.U8Fields() {
		if r.IntN(2) == 0 {
			v.U8[n] = uint8(1 + r.IntN(3))
		}
	}
	for _, n := range agg.I32Fields() {
		if r.IntN(2) == 0 {
			v.I32[n] = []int32{-1, 1, 100, -2147483648, 2147483647}[r.IntN(5)]
		}
	}
	if r.IntN(2) == 0 {
		v.U16["destinationServicePort"] = uint16(1 + r.IntN(65535))
	}
	if r.IntN(2) == 0 {
		if v6 {
			v.IP["destinationClusterIPv6"] = net.ParseIP(fmt.Sprintf("fd00::%x", 1+r.IntN(60000)))
		} else {
			v.IP["destinationClusterIPv4"] = net.IPv4(10, 96, byte(r.IntN(256)), byte(1+r.IntN(254))).To4()
		}
	}
	return v
}

type scase struct {
	flowType uint8
	egress   uint8
	ingress  uint8
	retries  int
	word     string
	v6       bool
}

type world struct {
	c      *hx.Ctx
	k      int
	sc     scase
	ap     *intermediate.AggregationProcess
	key    agg.Key
	corr   bool
	held   bool
	seen   [2]bool
	notRdy int // consecutive expiries while not ready
	vals   [2]sideVals
	ends   [2]uint32
	trace  []string
	first  int // side that created the flow
	nrec   [2]int
}

func (w *world) fail(class, why string) bool {
	w.c.Violation(w.k, class, why, map[string]any{"flowType": w.sc.flowType, "egress": w.sc.egress, "ingress": w.sc.ingress, "maxRetries": w.sc.retries, "word": w.sc.word, "trace": w.trace, "v6": w.sc.v6})
	return false
}

func (w *world) ready() bool { return !w.corr || (w.seen[0] && w.seen[1]) }

func emptyIP(ip net.IP) bool { return ip == nil || ip.IsUnspecified() }

// checkMerged verifies the correlated fields of the aggregated record m.
func (w *world) checkMerged(m map[string]interface{}) bool {
	s, d := w.vals[0], w.vals[1]
	for _, n := range agg.StrFields() {
		got, _ := m[n].(string)
		a, b := s.Str[n], d.Str[n]
		if (n == "sourcePodName" && got == "src-pod-reused") || (n == "destinationPodName" && got == "dst-pod-reused") {
			continue // the alternative name the same node used in another of its records
		}
		if !(got == a || got == b) || (got == "" && (a != "" || b != "")) {
			return w.fail("merged-field", fmt.Sprintf("%s = %q after correlation; source node reported %q, destination node %q", n, got, a, b))
		}
	}
	for _, n := range agg.U8Fields() {
		got, _ := m[n].(uint8)
		a, b := s.U8[n], d.U8[n]
		if !(got == a || got == b) || (got == 0 && (a != 0 || b != 0)) {
			return w.fail("merged-field", fmt.Sprintf("%s = %d after correlation; source %d, destination %d", n, got, a, b))
		}
	}
	for _, n := range agg.I32Fields() {
		got, _ := m[n].(int32)
		a, b := s.I32[n], d.I32[n]
		if !(got == a || got == b) || (got == 0 && (a != 0 || b != 0)) {
			return w.fail("merged-field", fmt.Sprintf("%s = %d after correlation; source %d, destination %d", n, got, a, b))
		}
	}
	{
		n := "destinationServicePort"
		got, _ := m[n].(uint16)
		a, b := s.U16[n], d.U16[n]
		if !(got == a || got == b) || (got == 0 && (a != 0 || b != 0)) {
			return w.fail("merged-field", fmt.Sprintf("%s = %d after correlation; source %d, destination %d", n, got, a, b))
		}
	}
	n := "destinationClusterIPv4"
	if w.sc.v6 {
		n = "destinationClusterIPv6"
	}
	got, _ := m[n].(net.IP)
	a, b := s.IP[n], d.IP[n]
	eq := func(x, y net.IP) bool { return (emptyIP(x) && emptyIP(y)) || bytes.Equal(x.To16(), y.To16()) }
	if !(eq(got, a) || eq(got, b)) || (emptyIP(got) && (!emptyIP(a) || !emptyIP(b))) {
		return w.fail("merged-field", fmt.Sprintf("%s = %v after correlation; source %v, destination %v", n, got, a, b))
	}
	w.c.Add("merged_records_checked", 1)
	return true
}

func (w *world) record(side int) bool {
	node := byte('S')
	if side == 1 {
		node = 'D'
	}
	w.ends[side] += 5
	v := w.vals[side]
	// records of ONE node do not always carry the same pod name (address reuse): they are still records
	// of that node. Every third record of a side uses an alternative, non-empty, pod name.
	w.nrec[side]++
	if w.sc.flowType == 2 && w.nrec[side]%3 == 2 {
		alt := sideVals{Str: map[string]string{}, U8: v.U8, U16: v.U16, I32: v.I32, IP: v.IP}
		for k, x := range v.Str {
			alt.Str[k] = x
		}
		if side == 0 {
			alt.Str["sourcePodName"] = "src-pod-reused"
		} else {
			alt.Str["destinationPodName"] = "dst-pod-reused"
		}
		v = alt
	}
	rec := agg.Rec{Key: w.key, Node: node, FlowType: w.sc.flowType, Egress: w.sc.egress, Ingress: w.sc.ingress, Start: 1000, End: w.ends[side],
		EndReason: 2, TCPState: "ESTABLISHED", Str: v.Str, U8: v.U8, U16: v.U16, I32: v.I32, IP: v.IP}
	if side == 1 && w.k%2 == 1 {
		// the destination node lays its records out differently (same fields, same template id)
		rec.Rotate = 3 + w.k%17
	}
	for i := 0; i < agg.NC; i++ {
		rec.Total[i] = uint64(w.ends[side]) * 10
		rec.Delta[i] = 10
	}
	if w.sc.flowType != 2 { // not inter-node: a single exporter sees both pods
		rec.Str = map[string]string{}
		for k, x := range v.Str {
			rec.Str[k] = x
		}
		rec.Str["sourcePodName"], rec.Str["destinationPodName"] = "src-pod", "dst-pod"
	}
	if err := w.ap.AggregateMsgByFlowKey(agg.Message(rec)); err != nil {
		return w.fail("aggregate-error", err.Error())
	}
	if !w.held {
		w.held = true
		w.seen = [2]bool{}
		w.notRdy = 0
		w.first = side
	}
	w.seen[side] = true
	fk := w.key.FlowKey()
	recs := w.ap.GetRecords(&fk)
	if len(recs) != 1 {
		return w.fail("flow-missing", fmt.Sprintf("GetRecords returned %d records after a record was ingested", len(recs)))
	}
	if w.corr && w.seen[0] && w.seen[1] {
		return w.checkMerged(recs[0])
	}
	return true
}

func (w *world) scan(adv int) bool {
	w.ap.VerifShiftDeadlines(time.Duration(adv) * time.Minute)
	flows, heap, now := w.ap.VerifSnapshot()
	due, inactiveDue := false, false
	if len(flows) > 1 || (len(flows) == 1) != w.held {
		return w.fail("held-set", fmt.Sprintf("%d flows held, model held=%v", len(flows), w.held))
	}
	if len(flows) == 1 {
		f := flows[0]
		if !f.HasItem || len(heap) != 1 {
			return w.fail("held-flow-not-scheduled", "the flow is held but not scheduled")
		}
		due = !f.Active.After(now) || !f.Inactive.After(now)
		inactiveDue = !f.Inactive.After(now)
		if f.ReadyToSend != w.ready() {
			if f.ReadyToSend {
				return w.fail("ready-too-early", fmt.Sprintf("ReadyToSend is true; sides seen: source=%v destination=%v, correlation required=%v", w.seen[0], w.seen[1], w.corr))
			}
			return w.fail("not-ready", fmt.Sprintf("ReadyToSend is false although the flow needs no (more) correlation: sides seen source=%v destination=%v, correlation required=%v", w.seen[0], w.seen[1], w.corr))
		}
	}
	type cb struct {
		ready, filled bool
		m             map[string]interface{}
	}
	var cbs []cb
	err := w.ap.ForAllExpiredFlowRecordsDo(func(fk intermediate.FlowKey, rec *intermediate.AggregationFlowRecord) error {
		cbs = append(cbs, cb{rec.ReadyToSend, w.ap.AreCorrelatedFieldsFilled(*rec), rec.Record.GetElementMap()})
		return nil
	})
	if err != nil {
		return w.fail("scan-error", err.Error())
	}
	w.c.Add("scans", 1)
	wantCB := w.held && due && w.ready()
	if len(cbs) > 1 || (len(cbs) == 1) != wantCB {
		if len(cbs) >= 1 && !w.ready() {
			return w.fail("exported-uncorrelated", fmt.Sprintf("the flow was exported although only source=%v destination=%v had reported (ReadyToSend=%v)", w.seen[0], w.seen[1], cbs[0].ready))
		}
		return w.fail("callback-count", fmt.Sprintf("%d callbacks, expected %v (held=%v due=%v ready=%v)", len(cbs), wantCB, w.held, due, w.ready()))
	}
	if len(cbs) == 1 {
		w.c.Add("exports", 1)
		if !cbs[0].ready {
			return w.fail("exported-not-ready", "callback invoked with ReadyToSend == false")
		}
		if w.corr {
			if !cbs[0].filled {
				return w.fail("exported-not-filled", "correlated flow exported with AreCorrelatedFieldsFilled == false")
			}
			if !w.checkMerged(cbs[0].m) {
				return false
			}
			w.c.Add("correlated_exports", 1)
		}
		w.notRdy = 0
		if inactiveDue {
			w.held = false
		}
	} else if w.held && due && !w.ready() {
		w.notRdy++
		w.c.Add("expiries_while_not_ready", 1)
	}
	// state after the scan
	flows, heap, now = w.ap.VerifSnapshot()
	if w.held && due && !w.ready() {
		if len(flows) == 0 {
			w.held = false // dropped: allowed at any retry count
			w.c.Add("uncorrelated_dropped", 1)
			if len(heap) != 0 {
				return w.fail("scheduled-entry-without-flow", "the flow was dropped but its queue entry remains")
			}
			return true
		}
		if w.notRdy >= w.sc.retries+1 {
			return w.fail("uncorrelated-never-dropped", fmt.Sprintf("the flow is still held after %d consecutive expiries without correlation (MaxRetries=%d)", w.notRdy, w.sc.retries))
		}
		f := flows[0]
		if !f.HasItem || len(heap) != 1 || !f.Active.After(now) || !f.Inactive.After(now) {
			return w.fail("retry-not-rearmed", "after a not-ready expiry the flow is held but not scheduled with both deadlines in the future")
		}
		return true
	}
	if (len(flows) == 1) != w.held {
		return w.fail("held-set-after-scan", fmt.Sprintf("%d flows held after the scan, model held=%v", len(flows), w.held))
	}
	if len(flows) != len(heap) {
		return w.fail("held-flow-not-scheduled", "map and queue disagree after the scan")
	}
	return true
}

func run(c *hx.Ctx, k int, r *rand.Rand, sc scase) bool {
	intermediate.MaxRetries = sc.retries
	ap := agg.NewProcess(A*time.Minute, I*time.Minute, 1, nil)
	key := agg.Keys[0]
	if sc.v6 {
		key = agg.Keys[3]
	}
	w := &world{c: c, k: k, sc: sc, ap: ap, key: key, corr: agg.NeedsCorrelation(sc.flowType, sc.egress, sc.ingress)}
	w.vals[0], w.vals[1] = genSide(r, 'S', sc.v6), genSide(r, 'D', sc.v6)
	w.ends = [2]uint32{2000, 2000}
	for _, ch := range strings.Fields(sc.word) {
		w.trace = append(w.trace, ch)
		ok := true
		switch ch {
		case "S":
			ok = w.record(0)
		case "D":
			ok = w.record(1)
		case "Ea":
			ok = w.scan(A + 1)
		case "Ei":
			ok = w.scan(A + I + 1)
		}
		if !ok {
			return false
		}
	}
	return true
}

func main() {
	c := hx.New("C07")
	defer c.Finish()
	lib.Init()
	syms := []string{"S", "D", "Ea", "Ei"}
	var words []string
	maxLen := c.Pick(5, 6)
	var gen func(prefix []string)
	gen = func(prefix []string) {
		if len(prefix) > 0 {
			words = append(words, strings.Join(prefix, " "))
		}
		if len(prefix) == maxLen {
			return
		}
		for _, s := range syms {
			gen(append(append([]string{}, prefix...), s))
		}
	}
	gen(nil)
	var combos []scase
	for ft := uint8(1); ft <= 4; ft++ {
		for eg := uint8(0); eg < 4; eg++ {
			for in := uint8(0); in < 4; in++ {
				if ft != 2 && (eg != 0 || in != 0) && !(eg == 1 && in == 1) {
					continue // rule actions matter for inter-node flows; keep two representatives elsewhere
				}
				for mr := 0; mr <= 2; mr++ {
					combos = append(combos, scase{flowType: ft, egress: eg, ingress: in, retries: mr})
				}
			}
		}
	}
	nEx := len(words) * len(combos)
	nRand := c.Pick(30000, 1500000)
	c.Note("exhaustive_part", fmt.Sprintf("all %d words over {S,D,Ea,Ei} up to length %d x %d (flow type, egress, ingress, MaxRetries) combinations = %d cases, correlate-field values from the PRNG; plus %d random words of length 7..30", len(words), maxLen, len(combos), nEx, nRand))
	from, to := c.Range(nEx + nRand)
	for k := from; k < to; k++ {
		if k%c.NBatch != c.Batch {
			continue
		}
		r := c.Rand(k, 0)
		var sc scase
		if k < nEx {
			sc = combos[k%len(combos)]
			sc.word = words[k/len(combos)]
			c.Add("exhaustive_cases", 1)
		} else {
			sc = combos[r.IntN(len(combos))]
			if r.IntN(2) == 0 {
				sc.flowType, sc.egress, sc.ingress = 2, uint8(r.IntN(2)), uint8(r.IntN(3))
			}
			n := 7 + r.IntN(24)
			var ws []string
			for i := 0; i < n; i++ {
				ws = append(ws, syms[r.IntN(4)])
			}
			sc.word = strings.Join(ws, " ")
			c.Add("random_cases", 1)
		}
		sc.v6 = r.IntN(2) == 0
		c.Journal(k, sc)
		c.Eval(1)
		run(c, k, r, sc)
		corr := agg.NeedsCorrelation(sc.flowType, sc.egress, sc.ingress)
		nrec := strings.Count(sc.word, "S") + strings.Count(sc.word, "D")
		if corr && (nrec >= 2 || strings.Contains(sc.word, "E")) {
			c.Nontrivial(hx.H64(fmt.Sprint(sc)))
		}
		if c.NumViolations() > 50 {
			break
		}
		if (k/c.NBatch)%20000 == 0 {
			c.Sample(8, fmt.Sprint(sc))
		}
	}
}

// C16: set and record builders — length bookkeeping, equivalence of the three add
// paths, reuse after reset.
//
// A case is a random operation sequence applied in lockstep to
//
//	A (AddRecord only), B (AddRecordWithExtraElements(k)), V (AddRecordV2), M (random path
//	per add; long-lived: reused across all cases of the batch through ResetSet)
//
// and, after every operation, to a fresh set F that replays the operations since the
// last reset. After every operation all five must report the same length, the length
// model (4 + sum of refipfix encodings) must agree, and serialisation through
// exporter.CreateIPFIXMsg must equal refipfix's encoding byte for byte.
package main

import (
	"bytes"
	"encoding/binary"
	"fmt"
	"math/rand/v2"
	"time"

	"github.com/vmware/go-ipfix/pkg/entities"
	"github.com/vmware/go-ipfix/pkg/exporter"

	"verif/harness/gen"
	"verif/harness/hx"
	"verif/harness/lib"
	"verif/harness/refipfix"
	"verif/harness/regtable"
)

type op struct {
	Kind  string // prepare-data prepare-template add update reset
	TID   uint16
	Elems []regtable.Elem
	Vals  [][]byte
	Extra int
	Path  int // for M: 0 AddRecord 1 WithExtra 2 V2
}

func (o op) String() string {
	switch o.Kind {
	case "add":
		return fmt.Sprintf("add(%d elems,extra=%d,path=%d)", len(o.Elems), o.Extra, o.Path)
	case "prepare-data", "prepare-template":
		return fmt.Sprintf("%s(%d)", o.Kind, o.TID)
	}
	return o.Kind
}

func mkElems(o op, template bool) []entities.InfoElementWithValue {
	out := make([]entities.InfoElementWithValue, len(o.Elems))
	for i, e := range o.Elems {
		ie := lib.IE(e)
		if template {
			v, err := entities.DecodeAndCreateInfoElementWithValue(ie, nil)
			if err != nil {
				panic(err)
			}
			out[i] = v
		} else {
			out[i] = lib.Value(ie, e.Type, o.Vals[i], false)
		}
	}
	return out
}

type model struct {
	hdrLen   uint16 // length field of the set header: written by UpdateLenInHeader only
	prepared bool
	template bool
	tid      uint16
	recs     [][]byte // expected encoding of each record
	recTID   []uint16
	nfields  []int
}

func (m *model) length() int {
	n := 4
	for _, r := range m.recs {
		n += len(r)
	}
	return n
}

func apply(s entities.Set, o op, path int, template bool) error {
	switch o.Kind {
	case "prepare-data":
		return s.PrepareSet(entities.Data, o.TID)
	case "prepare-template":
		return s.PrepareSet(entities.Template, o.TID)
	case "reset":
		s.ResetSet()
	case "update":
		s.UpdateLenInHeader()
	case "add":
		el := mkElems(o, template)
		switch path {
		case 0:
			return s.AddRecord(el, o.TID)
		case 1:
			return s.AddRecordWithExtraElements(el, o.Extra, o.TID)
		default:
			return s.AddRecordV2(el, o.TID)
		}
	}
	return nil
}

func genOps(r *rand.Rand, n int) []op {
	var ops []op
	prepared, template := false, false
	var tid uint16
	size := 4
	big := r.IntN(25) == 0
	for len(ops) < n {
		x := r.IntN(100)
		switch {
		case !prepared || x < 6:
			if prepared { // well-formed: reset before preparing again
				ops = append(ops, op{Kind: "reset"})
			}
			tid = uint16(256 + r.IntN(65000))
			template = r.IntN(3) == 0
			if template {
				ops = append(ops, op{Kind: "prepare-template", TID: tid})
			} else {
				ops = append(ops, op{Kind: "prepare-data", TID: tid})
			}
			prepared = true
			size = 4
		case x < 14:
			ops = append(ops, op{Kind: "reset"})
			prepared = false
		case x < 24:
			ops = append(ops, op{Kind: "update"})
		default:
			ne := r.IntN(13)
			if r.IntN(20) == 0 {
				ne = 0
			}
			el := gen.Template(r, lib.Pool, ne)
			o := op{Kind: "add", TID: tid, Elems: el, Extra: r.IntN(5), Path: r.IntN(3)}
			if !template {
				maxVar := 400
				if big || r.IntN(40) == 0 {
					maxVar = 30000 // occasionally push the set towards and beyond 65535
				}
				for _, e := range el {
					o.Vals = append(o.Vals, gen.Value(r, e, maxVar))
				}
			}
			ops = append(ops, o)
			_ = size
		}
	}
	return ops
}

func serialize(s entities.Set) ([]byte, error) {
	return exporter.CreateIPFIXMsg(s, 0x01020304, 77, time.Unix(1700000000, 0))
}

func main() {
	c := hx.New("C16")
	defer c.Finish()
	lib.Init()
	total := c.Pick(100000, 6000000)
	per := total / c.NBatch
	longLived := entities.NewSet(false) // M: reused across every case of this batch
	resetCycles := 0
	from, to := c.Range(per)
	for k := from; k < to; k++ {
		r := c.Rand(k, 0)
		nops := 3 + r.IntN(28)
		ops := genOps(r, nops)
		word := make([]string, len(ops))
		for i, o := range ops {
			word[i] = o.String()
		}
		c.Journal(k, word)
		c.Eval(1)
		sawResetThenAdd, afterReset, paths := false, false, map[int]bool{}
		A, B, V := entities.NewSet(false), entities.NewSet(false), entities.NewSet(false)
		M := entities.Set(longLived)
		M.ResetSet()
		resetCycles++
		m := &model{}
		var since []op // ops since the last reset (for the fresh replay)
		bad := false
		c.Guard(k, "builders", word, func() {
			for i, o := range ops {
				switch o.Kind {
				case "prepare-data", "prepare-template":
					m.prepared, m.template, m.tid = true, o.Kind == "prepare-template", o.TID
					since = append(since, o)
				case "reset":
					*m = model{}
					since = nil
					afterReset = true
					resetCycles++
				case "add":
					var enc []byte
					if m.template {
						enc = refipfix.EncodeTemplateRecord(o.TID, gen.Fields(o.Elems))
					} else {
						var err error
						enc, err = refipfix.EncodeRecord(gen.Widths(o.Elems), o.Vals)
						if err != nil {
							panic(err)
						}
					}
					m.recs = append(m.recs, enc)
					m.recTID = append(m.recTID, o.TID)
					m.nfields = append(m.nfields, len(o.Elems))
					since = append(since, o)
					if afterReset {
						sawResetThenAdd = true
					}
					paths[o.Path] = true
				case "update":
					since = append(since, o)
					m.hdrLen = uint16(m.length())
				}
				sets := []entities.Set{A, B, V, M}
				for si, s := range sets {
					path := si
					if si == 3 {
						path = o.Path
					}
					if err := apply(s, o, path, m.template); err != nil {
						c.Violation(k, "op-error", fmt.Sprintf("op %d %s on set %d: %v", i, o, si, err), word)
						bad = true
						return
					}
				}
				// fresh replay of the operations since the last reset
				F := entities.NewSet(false)
				tmpl := false
				for _, so := range since {
					if so.Kind == "prepare-template" {
						tmpl = true
					} else if so.Kind == "prepare-data" {
						tmpl = false
					}
					if err := apply(F, so, so.Path, tmpl); err != nil {
						c.Violation(k, "op-error-fresh", err.Error(), word)
						bad = true
						return
					}
				}
				all := append(sets, F)
				names := []string{"AddRecord", "AddRecordWithExtraElements", "AddRecordV2", "mixed/reused", "fresh-replay"}
				wantLen := m.length()
				var ref, firstMsg []byte
				for si, s := range all {
					if s.GetSetLength() != wantLen {
						c.Violation(k, "setlength", fmt.Sprintf("after op %d (%s): %s set reports length %d, model 4+sum(records)=%d", i, o, names[si], s.GetSetLength(), wantLen), word)
						bad = true
					}
					if int(s.GetNumberOfRecords()) != len(m.recs) {
						c.Violation(k, "numrecords", fmt.Sprintf("after op %d: %s set has %d records, model %d", i, names[si], s.GetNumberOfRecords(), len(m.recs)), word)
						bad = true
					}
					sum := 4
					for ri, rec := range s.GetRecords() {
						if rec.GetRecordLength() != len(rec.GetBuffer()) {
							c.Violation(k, "recbuf", fmt.Sprintf("%s set record %d: reported %d, buffer %d", names[si], ri, rec.GetRecordLength(), len(rec.GetBuffer())), word)
							bad = true
						}
						if ri < len(m.recs) {
							if !bytes.Equal(rec.GetBuffer(), m.recs[ri]) {
								c.Violation(k, "recbytes", fmt.Sprintf("%s set record %d bytes differ from the reference encoding", names[si], ri), word)
								bad = true
							}
							if rec.GetTemplateID() != m.recTID[ri] || int(rec.GetFieldCount()) != m.nfields[ri] {
								c.Violation(k, "recmeta", fmt.Sprintf("%s set record %d: id %d fields %d, expected %d/%d", names[si], ri, rec.GetTemplateID(), rec.GetFieldCount(), m.recTID[ri], m.nfields[ri]), word)
								bad = true
							}
						}
						sum += rec.GetRecordLength()
					}
					if sum != s.GetSetLength() {
						c.Violation(k, "sumlength", fmt.Sprintf("%s set: 4+sum(record lengths)=%d, reported %d", names[si], sum, s.GetSetLength()), word)
						bad = true
					}
					// the 4-byte set header. "A reset set behaves exactly like a new one": the oracle is the fresh
					// set F replaying the operations since the last reset, not an assumption about WHEN the
					// implementation writes the length field. F itself must carry the right set id, and a length
					// field that is either current (eager implementations) or as of the last UpdateLenInHeader.
					fh := F.GetHeaderBuffer()
					if si == len(all)-1 {
						wantID := uint16(0)
						if m.prepared {
							wantID = 2
							if !m.template {
								wantID = m.tid
							}
						}
						if len(fh) != 4 || binary.BigEndian.Uint16(fh[0:2]) != wantID {
							c.Violation(k, "set-header-id", fmt.Sprintf("after op %d (%s): a new set replaying the operations has header %x, expected set id %d", i, o, fh, wantID), word)
							bad = true
						} else if l := binary.BigEndian.Uint16(fh[2:4]); l != m.hdrLen && l != uint16(wantLen) {
							c.Violation(k, "set-header-length", fmt.Sprintf("after op %d (%s): header length field %d is neither the current set length %d nor the length at the last UpdateLenInHeader %d", i, o, l, wantLen, m.hdrLen), word)
							bad = true
						}
					} else if hb := s.GetHeaderBuffer(); !bytes.Equal(hb, fh) {
						c.Violation(k, "set-header", fmt.Sprintf("after op %d (%s): %s set header is %x, a new set replaying the operations since the last reset has %x", i, o, names[si], hb, fh), word)
						bad = true
					}
					if !m.prepared {
						continue
					}
					if o.Kind == "update" {
						if got := int(binary.BigEndian.Uint16(s.GetHeaderBuffer()[2:4])); got != wantLen&0xffff {
							c.Violation(k, "headerlen", fmt.Sprintf("%s set header length %d after UpdateLenInHeader, set length %d", names[si], got, wantLen), word)
							bad = true
						}
					}
					// serialise the set as it is (CreateIPFIXMsg is exported)
					msg, err := serialize(s)
					if wantLen+16 > 65535 {
						if err == nil {
							c.Violation(k, "oversize-accepted", fmt.Sprintf("%s set of %d bytes serialised", names[si], wantLen), word)
							bad = true
						}
						c.Add("oversize_refused", 1)
						continue
					}
					if err != nil {
						c.Violation(k, "serialize-error", err.Error(), word)
						bad = true
						continue
					}
					if len(msg)-16 != wantLen {
						c.Violation(k, "serialized-length", fmt.Sprintf("%s set: %d bytes serialised for a set of reported length %d", names[si], len(msg)-16, wantLen), word)
						bad = true
					}
					if ref == nil {
						id := uint16(2)
						if !m.template {
							id = m.tid
						}
						ref = refipfix.BuildMessage(0x01020304, 77, 1700000000, id, bytes.Join(m.recs, nil))
						copy(ref[18:20], F.GetHeaderBuffer()[2:4]) // length field as the fresh replay set carries it (judged above)
					}
					// the length field of the serialised set: as the set header carries it, or the true length
					// (a serialiser may write it itself); everything else must be the reference encoding, and the
					// add paths must serialise identically among themselves
					same := len(msg) == len(ref) && bytes.Equal(msg[:18], ref[:18]) && bytes.Equal(msg[20:], ref[20:])
					if same {
						l := binary.BigEndian.Uint16(msg[18:20])
						same = l == binary.BigEndian.Uint16(ref[18:20]) || l == uint16(wantLen)
					}
					if firstMsg == nil {
						firstMsg = msg
					}
					if !same || !bytes.Equal(msg, firstMsg) {
						c.Violation(k, "serialized-bytes", fmt.Sprintf("after op %d (%s): %s set serialises differently from the reference or from the %s set (%d vs %d bytes)", i, o, names[si], names[0], len(msg), len(ref)), word)
						bad = true
					}
					c.Add("serialisations_compared", 1)
				}
				if bad {
					return
				}
			}
		})
		c.Add("ops", int64(len(ops)))
		if sawResetThenAdd || len(paths) >= 2 {
			c.Nontrivial(hx.H64(fmt.Sprint(ops)))
		}
		if k < from+4 {
			c.Sample(6, word)
		}
	}
	c.Add("reset_cycles_on_one_reused_set_object", int64(resetCycles))
}

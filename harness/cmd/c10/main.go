// C10: UDP template lifetime — usable for the TTL after the last refresh, then discarded.
//
// The collecting process (udp flavour) runs on an injected virtual clock (package vclock).
// A case is a schedule over {T(key,layout) template/refresh/replacement, B(key) bad
// template, D(key) data, Adv(TTL/2 | TTL), P1(j) start pending timer callback j and let it
// run up to its clock read, P2(j) let started callback j finish, C(j,op) release callback j
// and run op CONCURRENTLY with it}. After every operation the template table and the timer
// registry are compared with a deterministic lifetime model; every schedule ends with a
// drain (advance past every deadline, run every callback) after which nothing may remain.
package main

import (
	"fmt"
	"math/rand/v2"
	"sort"
	"strings"
	"time"

	"github.com/vmware/go-ipfix/pkg/collector"

	"verif/harness/gen"
	"verif/harness/hx"
	"verif/harness/lib"
	"verif/harness/mirror"
	"verif/harness/refipfix"
	"verif/harness/regtable"
	"verif/harness/vclock"
)

const ttlSec = 100

var ttl = time.Duration(ttlSec) * time.Second

type key struct {
	dom uint32
	tid uint16
}

type op struct {
	kind string // T B D A P1 P2 C
	key  int
	lay  int
	d    time.Duration
	j    int
	sub  *op // for C
}

func (o op) String() string {
	switch o.kind {
	case "T":
		return fmt.Sprintf("T%d/%d", o.key, o.lay)
	case "B", "D":
		return fmt.Sprintf("%s%d", o.kind, o.key)
	case "A":
		return fmt.Sprintf("Adv%d", int(o.d/time.Second))
	case "P1", "P2":
		return fmt.Sprintf("%s(%d)", o.kind, o.j)
	case "C":
		return fmt.Sprintf("C(%d||%s)", o.j, o.sub)
	}
	return "?"
}

var layouts [][]regtable.Elem

type mkey struct {
	has bool
	lay int
	exp time.Time
}

type model struct {
	now  time.Time
	keys []mkey
}

func (m *model) clone() *model {
	c := &model{now: m.now, keys: append([]mkey(nil), m.keys...)}
	return c
}

// The model states what the property states, not when this implementation happens to discard:
//   - has && now < exp          the template MUST be stored and data MUST be accepted ("usable for at
//     least the lifetime after its most recent (re)transmission");
//   - !has                      it MUST be absent and data MUST be refused (never defined, invalidated,
//     or its own expiry callback has completed: "none outlives its lifetime once its timer has run");
//   - has && now >= exp         the lifetime has elapsed and the expiry has not completed yet: the
//     implementation may already have discarded it (say, at lookup) or still hold it. Both are
//     accepted and the model follows the observation (sync).
const (
	must = iota
	mustNot
	free
)

func (m *model) status(k int) int {
	switch {
	case !m.keys[k].has:
		return mustNot
	case m.now.Before(m.keys[k].exp):
		return must
	}
	return free
}

// applyOp applies T/B/D/A to the model; for D it returns must / mustNot / free (acceptance).
func (m *model) applyOp(o op) int {
	switch o.kind {
	case "T":
		m.keys[o.key] = mkey{has: true, lay: o.lay, exp: m.now.Add(ttl)}
		return must
	case "B":
		m.keys[o.key] = mkey{}
	case "D":
		return m.status(o.key)
	case "A":
		m.now = m.now.Add(o.d)
	}
	return mustNot
}

// applyCallback applies the completion of an expiry callback of key k whose timer had fired for
// the deadline due. If that is the deadline of the stored template, "its timer has run": it must
// be gone. A callback of an earlier arming (the template was refreshed after the timer fired)
// obliges to nothing; whether it may discard is decided by status() as for any other step.
func (m *model) applyCallback(k int, due time.Time) {
	if m.keys[k].has && m.keys[k].exp.Equal(due) {
		m.keys[k] = mkey{}
	}
}

// verdict compares an acceptance with what applyOp returned.
func okAcc(acc bool, want int) bool {
	return want == free || acc == (want == must)
}

type world struct {
	c        *hx.Ctx
	k        int
	keys     []key
	clk      *vclock.Clock
	dec      *lib.Decoder
	m        *model
	timerKey map[int]int // vclock timer id -> key index
	nTimers  int         // timers of the clock already attributed (see attribute)
	r        *rand.Rand
	word     []string
	overtake int // refresh/replace/delete executed while a callback of that key was pending or running
}

func tmplMsg(kk key, lay int) []byte {
	return refipfix.BuildMessage(kk.dom, 0, 1, 2, refipfix.EncodeTemplateRecord(kk.tid, gen.Fields(layouts[lay])))
}

func (w *world) msgFor(o op) []byte {
	kk := w.keys[o.key]
	switch o.kind {
	case "T":
		return tmplMsg(kk, o.lay)
	case "B":
		m := tmplMsg(kk, 1)
		return m[:len(m)-3]
	case "D":
		lay := 0
		if w.m.keys[o.key].has {
			lay = w.m.keys[o.key].lay
		}
		recs := gen.Records(w.r, layouts[lay], 1+w.r.IntN(2), 2000)
		var body []byte
		for _, rec := range recs {
			b, _ := refipfix.EncodeRecord(gen.Widths(layouts[lay]), rec)
			body = append(body, b...)
		}
		return refipfix.BuildMessage(kk.dom, 0, 1, kk.tid, body)
	}
	return nil
}

func (w *world) fail(class, why string) bool {
	w.c.Violation(w.k, class, why, map[string]any{"schedule": strings.Join(w.word, " "), "ttl_s": ttlSec})
	return false
}

// checkState compares table and timers with model m. allowAlt: alternative model (for C ops).
func (w *world) matches(m *model) (bool, string) {
	snap := w.dec.CP.VerifTemplates()
	have := map[key]collector.VerifTemplateInfo{}
	for _, ti := range snap {
		have[key{ti.ObsDomainID, ti.TemplateID}] = ti
	}
	n := 0
	for i, mk := range m.keys {
		ti, ok := have[w.keys[i]]
		switch st := m.status(i); {
		case st == must && !ok:
			return false, fmt.Sprintf("template of key %d is gone although it must be stored (expiry %ds, now %ds): dropped early", i, mk.exp.Unix()-t0.Unix(), m.now.Unix()-t0.Unix())
		case st == mustNot && ok:
			return false, fmt.Sprintf("template of key %d is stored although it must be gone (now %ds)", i, m.now.Unix()-t0.Unix())
		}
		if !ok {
			continue
		}
		n++
		want := gen.Fields(layouts[mk.lay])
		if len(ti.Elements) != len(want) {
			return false, fmt.Sprintf("key %d stores %d elements, model layout has %d", i, len(ti.Elements), len(want))
		}
		if !ti.ExpiryTime.Equal(mk.exp) {
			return false, fmt.Sprintf("key %d: stored expiry %ds, model %ds", i, ti.ExpiryTime.Unix()-t0.Unix(), mk.exp.Unix()-t0.Unix())
		}
	}
	if n != len(snap) {
		return false, fmt.Sprintf("collector stores %d templates, %d of them on model keys", len(snap), n)
	}
	return true, ""
}

var t0 = time.Unix(1700000000, 0)

// sync lets the model follow the observation where the property leaves the choice (status free):
// a template discarded at or after its deadline is gone for good.
func (w *world) sync(m *model) {
	have := map[key]bool{}
	for _, ti := range w.dec.CP.VerifTemplates() {
		have[key{ti.ObsDomainID, ti.TemplateID}] = true
	}
	for i := range m.keys {
		if m.status(i) == free && !have[w.keys[i]] {
			m.keys[i] = mkey{}
			w.c.Add("discarded_after_deadline_before_the_callback_completed", 1)
		}
	}
}

// timerInvariants: every stored template has an expiry pending; no armed timer without a template.
func (w *world) timerInvariants() bool {
	snap := w.dec.CP.VerifTemplates()
	owned := map[*vclock.Timer]bool{}
	wrapped := false
	checkArmed := func(ti collector.VerifTemplateInfo, vt *vclock.Timer) bool {
		armed, when := vt.Armed()
		if !armed {
			return true
		}
		// armed for the deadline, or earlier (an implementation may let the timer fire at an older target and
		// re-arm it then: the callback rules cover that); armed for later, the template would outlive its lifetime
		if when.After(ti.ExpiryTime) {
			return w.fail("timer-misarmed", fmt.Sprintf("template (%d,%d): timer armed for %ds, after the end of the lifetime at %ds", ti.ObsDomainID, ti.TemplateID, when.Unix()-t0.Unix(), ti.ExpiryTime.Unix()-t0.Unix()))
		}
		if when.Before(ti.ExpiryTime) {
			w.c.Add("timers_armed_before_the_deadline", 1)
		}
		return true
	}
	for _, ti := range snap {
		ki := -1
		for i, kk := range w.keys {
			if kk.dom == ti.ObsDomainID && kk.tid == ti.TemplateID {
				ki = i
			}
		}
		if vt, ok := ti.Timer.(*vclock.Timer); ok && vt != nil {
			// the template's timer is the clock's own object: identity is known
			if owned[vt] {
				return w.fail("shared-timer", fmt.Sprintf("two stored templates share timer %d", vt.ID))
			}
			owned[vt] = true
			if ki >= 0 {
				w.timerKey[vt.ID] = ki
			}
			if !checkArmed(ti, vt) {
				return false
			}
			if armed, _ := vt.Armed(); !armed && !w.clk.InFlight(vt) {
				return w.fail("no-expiry-pending", fmt.Sprintf("stored template (%d,%d) has neither an armed timer nor a callback in flight: it will never expire", ti.ObsDomainID, ti.TemplateID))
			}
			continue
		}
		if ti.Timer == nil {
			return w.fail("no-timer", fmt.Sprintf("stored template (%d,%d) has no expiry timer", ti.ObsDomainID, ti.TemplateID))
		}
		// the implementation wraps the clock's timer in an object of its own: the clock's timers are attributed
		// to templates by the operation during which they were created (attribute)
		wrapped = true
		var armedT []*vclock.Timer
		inflight := false
		for _, t := range w.clk.AllTimers() {
			if k2, known := w.timerKey[t.ID]; known && k2 == ki {
				if a, _ := t.Armed(); a {
					armedT = append(armedT, t)
					owned[t] = true
				}
				if w.clk.InFlight(t) {
					inflight = true
				}
			}
		}
		switch {
		case len(armedT) > 1:
			return w.fail("several-armed-timers", fmt.Sprintf("stored template (%d,%d) has %d armed timers", ti.ObsDomainID, ti.TemplateID, len(armedT)))
		case len(armedT) == 0 && !inflight:
			return w.fail("no-expiry-pending", fmt.Sprintf("stored template (%d,%d) has neither an armed timer nor a callback in flight: it will never expire", ti.ObsDomainID, ti.TemplateID))
		case len(armedT) == 1:
			if !checkArmed(ti, armedT[0]) {
				return false
			}
		}
	}
	for _, vt := range w.clk.ArmedTimers() {
		if !owned[vt] {
			if _, known := w.timerKey[vt.ID]; wrapped && !known {
				continue // created during a concurrent step by either side: cannot be attributed
			}
			return w.fail("orphan-timer", fmt.Sprintf("timer %d is armed but belongs to no stored template", vt.ID))
		}
	}
	w.c.Add("invariant_checks", 1)
	return true
}

// attribute maps the clock timers created since the last call to the key on whose behalf the operation ran
// (key < 0: unknown). Only used when the template's timer is not the clock's own object.
func (w *world) attribute(key int) {
	all := w.clk.AllTimers()
	for _, t := range all[w.nTimers:] {
		if _, known := w.timerKey[t.ID]; !known && key >= 0 {
			w.timerKey[t.ID] = key
		}
	}
	w.nTimers = len(all)
}

// doMsg presents T/B/D and returns whether it was accepted.
func (w *world) doMsg(o op) (accepted bool, ok bool) {
	msg := w.msgFor(o)
	m, derr, pv, st := w.dec.Decode(msg)
	if pv != nil {
		w.c.Violation(w.k, "panic:decode", fmt.Sprint(pv), map[string]any{"schedule": strings.Join(w.word, " "), "stack": st})
		return false, false
	}
	_ = m
	return derr == nil, true
}

func (w *world) inflightForKey(ki int) bool {
	for _, r := range w.clk.RunningList() {
		if w.timerKey[r.P.T.ID] == ki {
			return true
		}
	}
	return false
}

// step executes one op; returns (executed, ok). executed=false means the symbol is a no-op
// in the current state (schedule pruned).
func (w *world) step(o op) (bool, bool) {
	w.word = append(w.word, o.String())
	switch o.kind {
	case "T", "B", "D":
		if o.kind != "D" && (w.inflightForKey(o.key) || w.pendingForKey(o.key)) {
			w.overtake++
		}
		wantAcc := w.m.applyOp(o)
		acc, ok := w.doMsg(o)
		w.attribute(o.key)
		if !ok {
			return true, false
		}
		if o.kind == "B" {
			wantAcc = mustNot
		}
		if !okAcc(acc, wantAcc) {
			cls := map[string]string{"T": "valid-template-rejected", "B": "bad-template-accepted", "D": "data-rejected-although-template-alive"}[o.kind]
			if o.kind == "D" && acc {
				cls = "data-accepted-without-template"
			}
			return true, w.fail(cls, fmt.Sprintf("%s: accepted=%v, the model requires %v (now %ds)", o, acc, wantAcc == must, w.m.now.Unix()-t0.Unix()))
		}
		if o.kind == "D" && wantAcc == free {
			w.c.Add("data_after_deadline_before_the_callback_completed", 1)
		}
	case "A":
		w.m.applyOp(o)
		w.clk.Advance(o.d)
	case "P1":
		if o.j >= w.clk.NumPending() {
			return false, true
		}
		if atomicCallbacks {
			// this implementation reads the clock under the table lock: a callback cannot be held between
			// its clock read and its end (see calibrate); it runs as one step
			r := w.clk.Run(o.j)
			if r == nil {
				return false, true
			}
			if !r.Finished {
				w.c.Inconclusive("callback did not return within the wall-clock watchdog")
				return true, false
			}
			if ki, ok := w.timerKey[r.P.T.ID]; ok {
				w.m.applyCallback(ki, r.P.Due)
				w.attribute(ki)
			} else {
				w.attribute(-1)
			}
			w.c.Add("callbacks_started", 1)
			w.c.Add("callbacks_completed", 1)
			break
		}
		r := w.clk.Start(o.j)
		if r == nil {
			return false, true
		}
		if r.Finished {
			// the callback never read the clock: it ran to completion; judge with the current time
			if ki, ok := w.timerKey[r.P.T.ID]; ok {
				w.m.applyCallback(ki, r.P.Due)
			}
			w.clk.Finish(r)
		}
		w.c.Add("callbacks_started", 1)
	case "P2":
		rl := w.clk.RunningList()
		if o.j >= len(rl) {
			return false, true
		}
		r := rl[o.j]
		ki, known := w.timerKey[r.P.T.ID]
		if !w.clk.Finish(r) {
			w.c.Inconclusive("callback did not return within the wall-clock watchdog")
			return true, false
		}
		if known {
			w.m.applyCallback(ki, r.P.Due)
			w.attribute(ki)
		} else {
			w.attribute(-1)
		}
		w.c.Add("callbacks_completed", 1)
	case "C":
		var r *vclock.Running
		var due time.Time
		var tid int
		if atomicCallbacks {
			pl := w.clk.PendingList()
			if o.j >= len(pl) {
				return false, true
			}
			due, tid = pl[o.j].Due, pl[o.j].T.ID
		} else {
			rl := w.clk.RunningList()
			if o.j >= len(rl) {
				return false, true
			}
			r = rl[o.j]
			due, tid = r.P.Due, r.P.T.ID
		}
		ki, known := w.timerKey[tid]
		if !known {
			return false, true
		}
		// two legal serialisations
		mA := w.m.clone() // callback first
		mA.applyCallback(ki, due)
		accA := mA.applyOp(*o.sub)
		mB := w.m.clone() // operation first
		accB := mB.applyOp(*o.sub)
		mB.applyCallback(ki, due)
		if o.sub.kind == "B" {
			accA, accB = mustNot, mustNot
		}
		msg := w.msgFor(*o.sub)
		done := make(chan bool)
		go func() {
			if atomicCallbacks {
				rr := w.clk.Run(o.j)
				done <- rr != nil && rr.Finished
				return
			}
			done <- w.clk.Finish(r)
		}()
		_, derr, pv, st := w.dec.Decode(msg)
		fin := <-done
		if pv != nil {
			w.c.Violation(w.k, "panic:decode", fmt.Sprint(pv), map[string]any{"schedule": strings.Join(w.word, " "), "stack": st})
			return true, false
		}
		if !fin {
			w.c.Inconclusive("callback did not return within the wall-clock watchdog")
			return true, false
		}
		acc := derr == nil
		okA, whyA := w.matches(mA)
		okB, whyB := w.matches(mB)
		switch {
		case okA && okAcc(acc, accA):
			w.m = mA
			w.c.Add("concurrent_resolved_callback_first", 1)
		case okB && okAcc(acc, accB):
			w.m = mB
			w.c.Add("concurrent_resolved_operation_first", 1)
		default:
			return true, w.fail("concurrent-outcome", fmt.Sprintf("%s: accepted=%v and the table match neither serialisation (callback first: must-accept=%v %s; operation first: must-accept=%v %s)", o, acc, accA == must, whyA, accB == must, whyB))
		}
		if o.sub.kind == "T" {
			w.attribute(o.sub.key)
		} else {
			w.attribute(ki)
		}
		w.sync(w.m)
		w.overtake++
		return true, w.timerInvariants()
	}
	if ok, why := w.matches(w.m); !ok {
		cls := "table"
		if strings.Contains(why, "dropped early") {
			cls = "dropped-early"
		} else if strings.Contains(why, "must be gone") {
			cls = "outlives-lifetime"
		}
		return true, w.fail(cls, fmt.Sprintf("after %s: %s", o, why))
	}
	w.sync(w.m)
	return true, w.timerInvariants()
}

func (w *world) pendingForKey(ki int) bool {
	for _, p := range w.clk.PendingList() {
		if k2, known := w.timerKey[p.T.ID]; known && k2 == ki {
			return true
		}
	}
	return false
}

// drain: advance past every deadline and run every callback until nothing is scheduled.
func (w *world) drain() bool {
	for round := 0; round < 20; round++ {
		for _, r := range w.clk.RunningList() {
			if _, ok := w.step(op{kind: "P2", j: 0}); !ok {
				return false
			}
			_ = r
		}
		for w.clk.NumPending() > 0 {
			if _, ok := w.step(op{kind: "P1", j: 0}); !ok {
				return false
			}
			if len(w.clk.RunningList()) > 0 {
				if _, ok := w.step(op{kind: "P2", j: 0}); !ok {
					return false
				}
			}
		}
		if len(w.clk.ArmedTimers()) == 0 {
			break
		}
		if _, ok := w.step(op{kind: "A", d: ttl}); !ok {
			return false
		}
	}
	if left := w.dec.CP.VerifTemplates(); len(left) != 0 {
		return w.fail("survives-drain", fmt.Sprintf("%d templates still stored after time advanced past every deadline and every callback ran", len(left)))
	}
	if len(w.clk.ArmedTimers()) != 0 || w.clk.NumPending() != 0 {
		return w.fail("timers-after-drain", "timers still scheduled after the drain")
	}
	return true
}

func runSchedule(c *hx.Ctx, k int, r *rand.Rand, keys []key, ops []op) (pruned bool, hadOvertake bool) {
	clk := vclock.New(t0)
	dec, err := lib.NewDecoder("udp", collector.DecodingMode(mirror.Strict), ttlSec, lib.ClockAdapter{Clock: clk})
	if err != nil {
		panic(err)
	}
	defer dec.Close()
	w := &world{c: c, k: k, keys: keys, clk: clk, dec: dec, m: &model{now: t0, keys: make([]mkey, len(keys))}, timerKey: map[int]int{}, r: r}
	for _, o := range ops {
		exec, ok := w.step(o)
		if !exec {
			// release anything parked before abandoning the schedule
			w.word = w.word[:len(w.word)-1]
			for _, rr := range clk.RunningList() {
				clk.Finish(rr)
			}
			return true, false
		}
		if !ok {
			for _, rr := range clk.RunningList() {
				clk.Finish(rr)
			}
			return false, w.overtake > 0
		}
	}
	w.word = append(w.word, "|drain|")
	if !w.drain() {
		for _, rr := range clk.RunningList() {
			clk.Finish(rr)
		}
	}
	c.Distinct("final_words", hx.H64(strings.Join(w.word, " ")))
	return false, w.overtake > 0
}

// atomicCallbacks: set by calibrate when the implementation's expiry callback reads the clock while it
// holds the lock that templates and data need. Parking such a callback at its clock read (P1 without P2)
// would block every other operation - a state the program cannot be in at rest - so P1 runs the whole
// callback, P2 has nothing to finish (such words are pruned) and C starts the callback concurrently.
var atomicCallbacks bool

func calibrate(c *hx.Ctx) bool {
	clk := vclock.New(t0)
	dec, err := lib.NewDecoder("udp", collector.DecodingMode(mirror.Strict), ttlSec, lib.ClockAdapter{Clock: clk})
	if err != nil {
		panic(err)
	}
	defer dec.Close()
	dec.Decode(tmplMsg(key{1, 300}, 0))
	clk.Advance(ttl)
	if clk.NumPending() == 0 {
		return false
	}
	r := clk.Start(0)
	if r == nil || r.Finished {
		if r != nil {
			clk.Finish(r)
		}
		return false
	}
	done := make(chan struct{})
	go func() { dec.Decode(tmplMsg(key{1, 301}, 0)); close(done) }()
	blocked := false
	select {
	case <-done:
	case <-time.After(3 * time.Second):
		blocked = true
	}
	clk.Finish(r)
	<-done
	return blocked
}

func main() {
	c := hx.New("C10")
	defer c.Finish()
	lib.Init()
	g := func(ent uint32, name string) regtable.Elem { return lib.Table.Get(ent, name) }
	layouts = [][]regtable.Elem{
		{g(0, "sourceTransportPort"), g(0, "protocolIdentifier")},
		{g(0, "octetDeltaCount"), lib.CustomElems[8], g(0, "sourceIPv4Address")},
	}
	keys2 := []key{{1, 300}, {1, 301}}
	keys3 := []key{{1, 300}, {1, 301}, {2, 300}}
	keys4 := []key{{1, 300}, {1, 301}, {2, 300}, {2, 301}} // 2 ids x 2 domains
	if atomicCallbacks = calibrate(c); atomicCallbacks {
		c.Note("callback_placement", "the expiry callback reads the clock while holding the table lock: P1 runs the whole callback, words with P2 are pruned, C(j,op) starts callback j concurrently with op")
	} else {
		c.Note("callback_placement", "a fired callback can be held between its clock read and its end (P1 .. P2), with other operations in between")
	}
	alpha := func(nk int) []op {
		var a []op
		for ki := 0; ki < nk; ki++ {
			a = append(a, op{kind: "T", key: ki, lay: 0}, op{kind: "B", key: ki}, op{kind: "D", key: ki})
		}
		a = append(a, op{kind: "T", key: 0, lay: 1})
		a = append(a, op{kind: "A", d: ttl / 2}, op{kind: "A", d: ttl})
		a = append(a, op{kind: "P1", j: 0}, op{kind: "P1", j: 1}, op{kind: "P2", j: 0}, op{kind: "P2", j: 1})
		return a
	}
	type space struct {
		keys  []key
		alpha []op
		depth int
		n     int
	}
	pow := func(b, e int) int {
		n := 1
		for i := 0; i < e; i++ {
			n *= b
		}
		return n
	}
	var spaces []space
	a2, a3, a4 := alpha(2), alpha(3), alpha(4)
	if c.Thorough() {
		spaces = append(spaces, space{keys2, a2, 6, pow(len(a2), 6)}, space{keys3, a3, 5, pow(len(a3), 5)}, space{keys4, a4, 4, pow(len(a4), 4)})
	} else {
		spaces = append(spaces, space{keys2, a2, 4, pow(len(a2), 4)}, space{keys4, a4, 3, pow(len(a4), 3)})
	}
	nEx := 0
	for _, s := range spaces {
		nEx += s.n
	}
	nRand := c.Pick(60000, 2000000)
	c.Note("exhaustive_part", fmt.Sprintf("all words of the listed depths over the op alphabets (no-op symbols pruned): %v; plus %d random schedules of length <= 40 over 3 keys including concurrent C(j,op) steps", func() []string {
		var o []string
		for _, s := range spaces {
			o = append(o, fmt.Sprintf("%d keys, %d symbols, depth %d = %d words", len(s.keys), len(s.alpha), s.depth, s.n))
		}
		return o
	}(), nRand))
	from, to := c.Range(nEx + nRand)
	for k := from; k < to; k++ {
		if k%c.NBatch != c.Batch {
			continue
		}
		r := c.Rand(k, 0)
		var ops []op
		keys := keys3
		if k < nEx {
			x := k
			var sp space
			for _, s := range spaces {
				if x < s.n {
					sp = s
					break
				}
				x -= s.n
			}
			keys = sp.keys
			for i := 0; i < sp.depth; i++ {
				ops = append(ops, sp.alpha[x%len(sp.alpha)])
				x /= len(sp.alpha)
			}
		} else {
			n := 5 + r.IntN(36)
			for i := 0; i < n; i++ {
				var o op
				switch x := r.IntN(20); {
				case x < 5:
					o = op{kind: "T", key: r.IntN(3), lay: r.IntN(2)}
				case x < 7:
					o = op{kind: "B", key: r.IntN(3)}
				case x < 10:
					o = op{kind: "D", key: r.IntN(3)}
				case x < 13:
					o = op{kind: "A", d: []time.Duration{ttl / 2, ttl, ttl/2 + time.Second, ttl - time.Second, time.Second}[r.IntN(5)]}
				case x < 16:
					o = op{kind: "P1", j: r.IntN(2)}
				case x < 18:
					o = op{kind: "P2", j: r.IntN(2)}
				default:
					sub := op{kind: []string{"T", "T", "B", "D"}[r.IntN(4)], key: r.IntN(3), lay: r.IntN(2)}
					o = op{kind: "C", j: r.IntN(2), sub: &sub}
				}
				ops = append(ops, o)
			}
		}
		c.Journal(k, fmt.Sprint(ops))
		var pruned, ot bool
		if k < nEx {
			pruned, ot = runSchedule(c, k, r, keys, ops)
		} else {
			// random schedules: symbols that are no-ops in the current state are dropped, not pruned
			ops = dropNoops(ops)
			pruned, ot = runSchedule(c, k, r, keys, ops)
		}
		if pruned {
			c.Add("schedules_pruned_noop_symbol", 1)
			continue
		}
		c.Eval(1)
		if ot {
			c.Nontrivial(hx.H64(fmt.Sprint(ops)))
			c.Add("schedules_with_op_overtaking_a_fired_callback", 1)
		}
		if c.NumViolations() > 100 {
			break
		}
		if (k/c.NBatch)%4000 == 0 {
			c.Sample(10, fmt.Sprint(ops))
		}
	}
}

// dropNoops simulates pending/running counts with a light model so that random schedules
// contain only executable P1/P2/C symbols (the real run re-checks).
func dropNoops(ops []op) []op {
	type tm struct {
		armed bool
		when  time.Duration
	}
	now := time.Duration(0)
	timers := map[int]*tm{}
	var pend []int
	var run []int
	var out []op
	for _, o := range ops {
		switch o.kind {
		case "T":
			t := timers[o.key]
			if t == nil {
				t = &tm{}
				timers[o.key] = t
			}
			t.armed, t.when = true, now+ttl
		case "B":
			if t := timers[o.key]; t != nil {
				t.armed = false
				delete(timers, o.key)
			}
		case "A":
			now += o.d
			var ks []int
			for k := range timers {
				ks = append(ks, k)
			}
			sort.Ints(ks)
			for _, k := range ks {
				if t := timers[k]; t.armed && t.when <= now {
					t.armed = false
					pend = append(pend, k)
				}
			}
		case "P1":
			if o.j >= len(pend) {
				continue
			}
			run = append(run, pend[o.j])
			pend = append(pend[:o.j:o.j], pend[o.j+1:]...)
		case "P2", "C":
			if o.j >= len(run) {
				continue
			}
			run = append(run[:o.j:o.j], run[o.j+1:]...)
			// deletion effects on timers are not simulated; the real run re-checks executability
		}
		out = append(out, o)
	}
	return out
}

// C05: flow aggregation arithmetic — sums, latest values and throughput are conserved.
//
// A case is a history of {record for (flow, node), reset(flow), expire-and-recreate} over a
// pool of 5-tuples on a real AggregationProcess. After EVERY operation the aggregated
// record of the touched flow is compared, field by field, with the reference aggregator
// (agg.Flow, written from the statement), every other flow's record must be byte-for-byte
// what it was, and GetNumFlows must equal the number of live 5-tuples.
package main

import (
	"fmt"
	"math/rand/v2"
	"time"

	"github.com/vmware/go-ipfix/pkg/entities"
	"github.com/vmware/go-ipfix/pkg/intermediate"

	"verif/harness/agg"
	"verif/harness/hx"
	"verif/harness/lib"
)

type flowCfg struct {
	key      agg.Key
	flowType uint8
	egress   uint8
	ingress  uint8
	corr     bool
	coherent bool // generator family
}

type stream struct {
	lastEnd uint32
	total   [agg.NC]uint64
}

type flowGen struct {
	cfg     flowCfg
	start   uint32
	off     [2]uint32 // what each reporting node adds to start: the two nodes of a flow need not see it begin in the same second
	node    [2]stream
	maxEnd  uint32
	maxTot  [agg.NC]uint64
	created bool
}

var deltaPool = []uint64{0, 1, 2, 1<<32 - 1, 1 << 32, 1<<32 + 1, 1 << 53, 1 << 60, 7, 1000}

func main() {
	c := hx.New("C05")
	defer c.Finish()
	lib.Init()
	total := c.Pick(64000, 2400000)
	per := total / c.NBatch
	from, to := c.Range(per)
	for k := from; k < to; k++ {
		r := c.Rand(k, 0)
		c.Journal(k, "history")
		c.Eval(1)
		if oneHistory(c, k, r) {
			c.Add("histories_ok", 1)
		}
		if c.NumViolations() > 30 {
			break
		}
	}
}

func oneHistory(c *hx.Ctx, k int, r *rand.Rand) bool {
	ap := agg.NewProcess(2*time.Hour, 50*time.Hour, 1, nil)
	nflows := 2 + r.IntN(5)
	gens := make([]*flowGen, nflows)
	perm := r.Perm(6)
	for i := range gens {
		cfg := flowCfg{key: agg.Keys[perm[i%6]], flowType: uint8(1 + r.IntN(4)), coherent: r.IntN(2) == 0}
		if cfg.flowType == 2 {
			cfg.egress = uint8(r.IntN(4))
			cfg.ingress = uint8(r.IntN(4))
		}
		if i >= 6 {
			return true
		}
		cfg.corr = agg.NeedsCorrelation(cfg.flowType, cfg.egress, cfg.ingress)
		gens[i] = &flowGen{cfg: cfg, start: uint32(1000 + r.IntN(1000))}
		if r.IntN(2) == 0 {
			gens[i].off = [2]uint32{uint32(r.IntN(40)), uint32(r.IntN(40))}
		}
	}
	model := map[agg.Key]*agg.Flow{}
	prev := map[agg.Key]map[string]interface{}{}
	// the companion: a seventh flow (one reporting stream) whose records only ever travel in ONE MESSAGE with a
	// record of another flow, before or after it - messages carry records of several 5-tuples
	compKey := agg.Keys[6]
	compStart, compEnd := uint32(900), uint32(0)
	var compTot [agg.NC]uint64
	var word []string
	aggregated := false
	fail := func(class, why string) bool {
		c.Violation(k, class, why, map[string]any{"history": word})
		return false
	}
	nops := 6 + r.IntN(40)
	for op := 0; op < nops; op++ {
		g := gens[r.IntN(len(gens))]
		x := r.IntN(20)
		var touched, touched2 *agg.Key
		resetOp := false
		switch {
		case x < 15: // record
			ni := r.IntN(2)
			node := byte('B')
			if g.cfg.corr {
				node = []byte{'S', 'D'}[ni]
			} else {
				ni = 0
			}
			st := &g.node[ni]
			var end uint32
			if g.cfg.coherent {
				end = g.maxEnd + 1 + uint32(r.IntN(50))
				if g.maxEnd == 0 {
					end = g.start + 1 + uint32(r.IntN(50))
				}
			} else {
				base := st.lastEnd
				if base == 0 {
					base = g.start
				}
				end = base + 1 + uint32(r.IntN(50))
			}
			myStart := g.start + g.off[ni]
			if end <= myStart {
				end = myStart + 1 + uint32(r.IntN(5)) // every record has end > start
			}
			rec := agg.Rec{Key: g.cfg.key, Node: node, FlowType: g.cfg.flowType, Egress: g.cfg.egress, Ingress: g.cfg.ingress,
				Start: myStart, End: end, EndReason: uint8(1 + r.IntN(3)), TCPState: []string{"ESTABLISHED", "TIME_WAIT", "SYN_SENT", ""}[r.IntN(4)]}
			for i := 0; i < agg.NC; i++ {
				base := st.total[i]
				if g.cfg.coherent {
					base = g.maxTot[i]
				}
				growth := uint64(r.IntN(100000))
				switch r.IntN(8) {
				case 0:
					growth = 0
				case 1:
					growth = uint64(r.IntN(1<<30)) << uint(r.IntN(20))
				}
				if base+growth >= 1<<60 {
					growth = 0
				}
				rec.Total[i] = base + growth
				rec.Delta[i] = deltaPool[r.IntN(len(deltaPool))]
				if r.IntN(3) == 0 {
					rec.Delta[i] = r.Uint64() >> uint(r.IntN(64))
				}
			}
			rec.Str = map[string]string{}
			if node == 'S' {
				rec.Str["sourcePodName"] = "pod-s"
			} else if node == 'D' {
				rec.Str["destinationPodName"] = "pod-d"
			} else {
				rec.Str["sourcePodName"], rec.Str["destinationPodName"] = "pod-s", "pod-d"
			}
			word = append(word, fmt.Sprintf("rec(%s:%d,%c,end=%d,tot=%v,delta=%v)", g.cfg.key.Src, g.cfg.key.DPort, node, end, rec.Total, rec.Delta))
			msgRecs := []agg.Rec{rec}
			var comp *agg.Rec
			if r.IntN(3) == 0 {
				if compEnd == 0 {
					compEnd = compStart
				}
				compEnd += 1 + uint32(r.IntN(50))
				cr := agg.Rec{Key: compKey, Node: 'B', FlowType: 1, Start: compStart, End: compEnd, EndReason: 2, TCPState: "ESTABLISHED",
					Str: map[string]string{"sourcePodName": "pod-s", "destinationPodName": "pod-d"}}
				for i := 0; i < agg.NC; i++ {
					compTot[i] += uint64(r.IntN(100000))
					cr.Total[i] = compTot[i]
					cr.Delta[i] = deltaPool[r.IntN(len(deltaPool))]
				}
				comp = &cr
				if r.IntN(2) == 0 {
					msgRecs = []agg.Rec{cr, rec}
				} else {
					msgRecs = append(msgRecs, cr)
				}
				word = append(word, fmt.Sprintf("  (one message of %d records, with rec(companion %s:%d,end=%d,tot=%v,delta=%v), companion first: %v)", len(msgRecs), compKey.Src, compKey.DPort, cr.End, cr.Total, cr.Delta, msgRecs[0].Key == compKey))
			}
			if err := ap.AggregateMsgByFlowKey(agg.Message(msgRecs...)); err != nil {
				return fail("aggregate-error", err.Error())
			}
			if comp != nil {
				if f, ok := model[compKey]; !ok {
					f = agg.NewFlow(compKey, false)
					model[compKey] = f
					f.Apply(*comp, true)
				} else {
					f.Apply(*comp, false)
				}
				ck := compKey
				touched2 = &ck
				c.Add("messages_with_records_of_two_flows", 1)
			}
			st.lastEnd, st.total = end, rec.Total
			if !g.cfg.corr {
				g.node[1] = *st
			}
			if end > g.maxEnd {
				g.maxEnd = end
			}
			for i := range rec.Total {
				if rec.Total[i] > g.maxTot[i] {
					g.maxTot[i] = rec.Total[i]
				}
			}
			f, ok := model[g.cfg.key]
			if !ok {
				f = agg.NewFlow(g.cfg.key, g.cfg.corr)
				model[g.cfg.key] = f
				f.Apply(rec, true)
			} else {
				f.Apply(rec, false)
				aggregated = true
			}
			kk := g.cfg.key
			touched = &kk
			c.Add("records", 1)
		case x < 18: // reset one flow, under the process lock as documented
			if _, ok := model[g.cfg.key]; !ok {
				continue
			}
			fk := g.cfg.key.FlowKey()
			word = append(word, fmt.Sprintf("reset(%s:%d)", g.cfg.key.Src, g.cfg.key.DPort))
			err := ap.ForAllRecordsDo(func(key intermediate.FlowKey, rec *intermediate.AggregationFlowRecord) error {
				if key == fk {
					return ap.ResetStatAndThroughputElementsInRecord(rec.Record)
				}
				return nil
			})
			if err != nil {
				return fail("reset-error", err.Error())
			}
			model[g.cfg.key].Reset()
			kk := g.cfg.key
			touched = &kk
			resetOp = true
			c.Add("resets", 1)
		case x == 18: // active expiry: every ready flow is exported and reset by the callback, and kept
			allReady := len(model) > 0
			for _, f := range model {
				if f.Corr && !(f.N[0].Seen && f.N[1].Seen) {
					allReady = false // a flow awaiting correlation would consume a retry: C07's business
				}
			}
			if !allReady {
				continue
			}
			word = append(word, "export(active expiry, callback resets)")
			ap.VerifShiftDeadlines(2*time.Hour + time.Minute)
			exported := 0
			if err := ap.ForAllExpiredFlowRecordsDo(func(key intermediate.FlowKey, rec *intermediate.AggregationFlowRecord) error {
				exported++
				return ap.ResetStatAndThroughputElementsInRecord(rec.Record)
			}); err != nil {
				return fail("export-error", err.Error())
			}
			if exported != len(model) {
				return fail("export-count", fmt.Sprintf("%d flows exported on active expiry, %d are live and ready", exported, len(model)))
			}
			for key, f := range model {
				f.Reset()
				fk := key.FlowKey()
				recs := ap.GetRecords(&fk)
				if len(recs) != 1 {
					return fail("one-record-per-flow", fmt.Sprintf("GetRecords(%v) returned %d records after an active export", fk, len(recs)))
				}
				if class, why := f.Check(recs[0]); class != "" {
					return fail(class, "after export+reset: "+why)
				}
				if name, ok := agg.SameExcept(prev[key], recs[0], agg.ResetTouches); !ok {
					return fail("reset-touched-other-field", fmt.Sprintf("export+reset changed %q", name))
				}
				prev[key] = recs[0]
			}
			c.Add("active_exports", int64(exported))
		default: // every flow expires by inactivity and is deleted; re-created flows start from zero
			word = append(word, "expire-all")
			ap.VerifShiftDeadlines(51 * time.Hour)
			n := 0
			if err := ap.ForAllExpiredFlowRecordsDo(func(key intermediate.FlowKey, rec *intermediate.AggregationFlowRecord) error { n++; return nil }); err != nil {
				return fail("expire-error", err.Error())
			}
			ready := 0
			for range model {
				ready++
			}
			model = map[agg.Key]*agg.Flow{}
			prev = map[agg.Key]map[string]interface{}{}
			compStart, compEnd, compTot = compStart+5000, 0, [agg.NC]uint64{}
			for _, gg := range gens {
				gg.node = [2]stream{}
				gg.maxEnd, gg.maxTot = 0, [agg.NC]uint64{}
				gg.start += 5000
			}
			c.Add("expire_all", 1)
			// flows awaiting correlation are retried, not deleted, on their first expiry: drain them
			for i := 0; i < 5 && ap.GetNumFlows() > 0; i++ {
				ap.VerifShiftDeadlines(51 * time.Hour)
				ap.ForAllExpiredFlowRecordsDo(func(key intermediate.FlowKey, rec *intermediate.AggregationFlowRecord) error { return nil })
			}
		}
		// ---- observe everything after the operation ----
		if n := ap.GetNumFlows(); int(n) != len(model) {
			return fail("num-flows", fmt.Sprintf("GetNumFlows() = %d, %d distinct 5-tuples are live", n, len(model)))
		}
		for key, f := range model {
			fk := key.FlowKey()
			recs := ap.GetRecords(&fk)
			if len(recs) != 1 {
				return fail("one-record-per-flow", fmt.Sprintf("GetRecords(%v) returned %d records", fk, len(recs)))
			}
			m := recs[0]
			if (touched != nil && key == *touched) || (touched2 != nil && key == *touched2) {
				if class, why := f.Check(m); class != "" {
					fam := "skewed"
					if f.Coherent {
						fam = "coherent"
					}
					return fail(class, fmt.Sprintf("after %s [%s family, corr=%v]: %s", word[len(word)-1], fam, f.Corr, why))
				}
				if resetOp {
					if name, ok := agg.SameExcept(prev[key], m, agg.ResetTouches); !ok {
						return fail("reset-touched-other-field", fmt.Sprintf("reset changed %q, which is neither a delta nor a throughput field", name))
					}
				}
				c.Add("records_compared_with_model", 1)
			} else if p, ok := prev[key]; ok {
				if name, same := agg.SameExcept(p, m, nil); !same {
					return fail("other-flow-changed", fmt.Sprintf("%s changed field %q of another flow %v", word[len(word)-1], name, fk))
				}
				c.Add("other_flows_compared", 1)
			}
			prev[key] = m
		}
	}
	if aggregated {
		c.Nontrivial(hx.H64(fmt.Sprint(word)))
	}
	if k%2000 == 0 {
		c.Sample(6, word)
	}
	return true
}

var _ = entities.NewSet

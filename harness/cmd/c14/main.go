// C14: exporter background activity and lifecycle never corrupt the stream.
//
// A case is one exporter session of one of three kinds, 8 sessions run concurrently:
//
//	refresh : UDP exporter with the minimum refresh interval (1 s) against a raw UDP peer;
//	          the application (one goroutine) sends templates, then paced data for > 4
//	          intervals. Every datagram must be exactly one well-formed message; application
//	          data must arrive unaltered and in order; every refresh copy of a template must
//	          equal the original; per-template refresh counts may differ by at most one
//	          (each round carries every template sent so far exactly once); sequence
//	          numbers must follow the running record count in capture order.
//	peerclose: TCP exporter with CheckConnInterval 25 ms; the peer closes; after a silent
//	          wait the first SendSet must fail (three fresh attempts, wait doubled).
//	close   : CloseConnToCollector from 1..8 goroutines, twice each, while the application
//	          goroutine is sending: must return, later SendSet must fail, the peer's stream
//	          must be the acknowledged sends plus at most a prefix of one failed send, and
//	          no exporter goroutine may remain.
package main

import (
	"bytes"
	"encoding/json"
	"fmt"
	"io"
	"math/rand/v2"
	"net"
	"runtime"
	"runtime/pprof"
	"strings"
	"sync"
	"sync/atomic"
	"time"

	"github.com/vmware/go-ipfix/pkg/entities"
	"github.com/vmware/go-ipfix/pkg/exporter"

	"verif/harness/gen"
	"verif/harness/hx"
	"verif/harness/lib"
	"verif/harness/peers"
	"verif/harness/refipfix"
	"verif/harness/regtable"
)

var small []regtable.Elem

func main() {
	c := hx.New("C14")
	defer c.Finish()
	lib.Init()
	for _, e := range lib.Pool {
		if e.Len <= 8 && e.Len >= 1 {
			small = append(small, e)
		}
	}
	groups := c.Pick(1, 40)
	kinds := []string{"refresh", "refresh", "refresh", "jsonrefresh", "peerclose", "backpressure", "close", "close"}
	from, to := c.Range(groups * len(kinds))
	for g := from / len(kinds); g*len(kinds) < to; g++ {
		var wg sync.WaitGroup
		for i, kind := range kinds {
			k := g*len(kinds) + i
			if k < from || k >= to {
				continue
			}
			c.Journal(k, map[string]any{"kind": kind})
			wg.Add(1)
			go func(k int, kind string) {
				defer wg.Done()
				r := c.Rand(k, 0)
				switch kind {
				case "refresh":
					c.Eval(1)
					res := refreshSession(c, k, r, 4300*time.Millisecond)
					if strings.HasPrefix(res, "gap|") {
						c.Add("refresh_sessions_with_a_gap_rerun_for_confirmation", 1)
						c.Sample(4, map[string]any{"kind": "gap-not-confirmed-or-confirmed", "first_session": res[6:min(len(res), 1500)]})
						// confirmation: a fresh session of the same kind observed twice as long, in which the template must have gone
						// without a copy for FOUR intervals (a template that dropped out of the refresh never comes back; a
						// delayed tick or a datagram the peer's socket buffer shed does not add up to that)
						if res2 := refreshSession(c, k, c.Rand(k, 2), 8600*time.Millisecond, int(res[4]-'0'), 4000); strings.HasPrefix(res2, "gap|") {
							c.Violation(k, "template-not-refreshed", res2[6:], map[string]any{"first_session": res[6:]})
						}
					}
					if res == "no-refresh" {
						// confirm on a fresh session observed twice as long
						if refreshSession(c, k, c.Rand(k, 1), 8600*time.Millisecond) == "no-refresh" {
							c.Violation(k, "no-refresh", "no template was retransmitted during 4 and then 8 refresh intervals although the application's own sends progressed", nil)
						}
					}
				case "jsonrefresh":
					c.Eval(1)
					jsonRefreshSession(c, k, r)
				case "backpressure":
					c.Eval(1)
					backpressureSession(c, k, r)
				case "peerclose":
					c.Eval(1)
					peerCloseSession(c, k, r)
				case "close":
					n := 12
					for j := 0; j < n; j++ {
						c.Eval(1)
						closeSession(c, k, c.Rand(k, uint64(j)), j)
					}
				}
			}(k, kind)
		}
		wg.Wait()
		if c.NumViolations() > 10 {
			break
		}
	}
	// no exporter goroutine may survive its session
	leak := ""
	for i := 0; i < 40; i++ {
		buf := new(bytes.Buffer)
		pprof.Lookup("goroutine").WriteTo(buf, 2)
		leak = ""
		for _, g := range strings.Split(buf.String(), "\n\n") {
			if strings.Contains(g, "go-ipfix/pkg/exporter.") {
				leak = g
				break
			}
		}
		if leak == "" {
			break
		}
		time.Sleep(50 * time.Millisecond)
	}
	if leak != "" {
		c.Violation(-1, "goroutine-leak", "an exporter goroutine is still alive 2 s after every session was closed", leak)
	}
	c.Add("leak_probes", 1)
}

type tmpl struct {
	tid   uint16
	elems []regtable.Elem
}

func dataSet(t tmpl, counter uint32, nrec int, r *rand.Rand) (entities.Set, []byte) {
	// the first element of every template is vfUnsigned32 and carries a unique counter
	var recs [][][]byte
	var body []byte
	for i := 0; i < nrec; i++ {
		rec := [][]byte{refipfix.PU(4, uint64(counter))}
		for _, e := range t.elems[1:] {
			rec = append(rec, gen.Value(r, e, 20))
		}
		recs = append(recs, rec)
		b, _ := refipfix.EncodeRecord(gen.Widths(t.elems), rec)
		body = append(body, b...)
	}
	set := entities.NewSet(false)
	if err := lib.FillDataSet(set, t.tid, t.elems, recs, nil); err != nil {
		panic(err)
	}
	return set, body
}

func refreshSession(c *hx.Ctx, k int, r *rand.Rand, dur time.Duration, opts ...int) string {
	// opts: [0] 1 = a storm session whatever the PRNG says; [1] the gap (ms) that counts as "not refreshed" (default 2500)
	gapLimit := 2500 * time.Millisecond
	if len(opts) > 1 {
		gapLimit = time.Duration(opts[1]) * time.Millisecond
	}
	v6 := r.IntN(2) == 0
	domain := r.Uint32()
	s, err := lib.NewExpSession("udp", v6, domain, 1, 0)
	if err != nil {
		c.Inconclusive("session: " + err.Error())
		return ""
	}
	defer s.Close()
	start := time.Now()
	fail := func(class, why string, detail any) string {
		c.Violation(k, class, why, detail)
		return class
	}
	var tmpls []tmpl
	mkT := func() tmpl {
		t := tmpl{tid: s.EP.NewTemplateID(), elems: append([]regtable.Elem{lib.CustomElems[11]}, gen.Template(r, small, r.IntN(4))...)}
		return t
	}
	type appSend struct {
		kind string
		tid  uint16
		body []byte
		nrec int
	}
	var sends []appSend
	sendT := func(t tmpl) bool {
		set, err := lib.TemplateSet(t.tid, t.elems, r.IntN(4))
		if err != nil {
			fail("templateset-error", err.Error(), nil)
			return false
		}
		if _, err := s.EP.SendSet(set); err != nil {
			fail("send-error", "template: "+err.Error(), nil)
			return false
		}
		sends = append(sends, appSend{"T", t.tid, refipfix.EncodeTemplateRecord(t.tid, gen.Fields(t.elems)), 0})
		tmpls = append(tmpls, t)
		return true
	}
	nT := 1 + r.IntN(4)
	// storm: many templates (a refresh round then takes milliseconds) and a short burst of NEW templates announced
	// while a round is being transmitted, then silence until the next round: "every template sent so far is
	// retransmitted each refresh interval", whenever it was announced
	storm := r.IntN(3) == 1 || (len(opts) > 0 && opts[0] == 1)
	if storm {
		nT = 150 + r.IntN(100)
		dur += time.Second
	}
	for i := 0; i < nT; i++ {
		if !sendT(mkT()) {
			return "error"
		}
	}
	pacing := r.IntN(3) // 0 bursts, 1 small gaps, 2 mostly idle
	addMid := r.IntN(2) == 0
	// trickle: the application keeps announcing NEW templates more often than the refresh interval ("every
	// template sent so far is retransmitted each refresh interval" - also while others are being announced)
	trickle := r.IntN(4) == 0 && !storm
	tickAt := time.Second // the library's refresh ticker was started just before `start`
	stormBursts := 0
	nextTrickle := time.Duration(300+r.IntN(400)) * time.Millisecond
	added := false
	late := 0 // templates announced after the start
	counter := uint32(0)
	for time.Since(start) < dur {
		if trickle && time.Since(start) > nextTrickle && time.Since(start) < dur-500*time.Millisecond {
			if !sendT(mkT()) {
				return "error"
			}
			late++
			nextTrickle = time.Since(start) + time.Duration(300+r.IntN(400))*time.Millisecond
		}
		if storm && time.Since(start) > tickAt-20*time.Millisecond && stormBursts == 0 && tickAt < dur-1500*time.Millisecond {
			// wait (sending nothing) for the first datagram of the round, then announce a few templates at once
			base := s.UDP.Count()
			for time.Since(start) < tickAt+60*time.Millisecond {
				if s.UDP.Count() > base {
					for j := 0; j < 4+r.IntN(6); j++ {
						if !sendT(mkT()) {
							return "error"
						}
						late++
					}
					stormBursts++
					break
				}
				runtime.Gosched()
			}
			tickAt += time.Second
			// nothing more is announced in this session; data goes on below
		}
		if !trickle && !storm && addMid && !added && time.Since(start) > dur/3 {
			if !sendT(mkT()) {
				return "error"
			}
			added = true
			late++
		}
		t := tmpls[r.IntN(len(tmpls))]
		counter++
		nrec := 1 + r.IntN(3)
		set, body := dataSet(t, counter, nrec, r)
		if _, err := s.EP.SendSet(set); err != nil {
			return fail("send-error", fmt.Sprintf("data send %d after %v: %v", counter, time.Since(start), err), nil)
		}
		sends = append(sends, appSend{"D", t.tid, body, nrec})
		switch pacing {
		case 0:
			if counter%50 == 0 {
				time.Sleep(time.Duration(5+r.IntN(30)) * time.Millisecond)
			}
		case 1:
			time.Sleep(time.Duration(r.IntN(2000)) * time.Microsecond)
		default:
			time.Sleep(time.Duration(20+r.IntN(200)) * time.Millisecond)
		}
	}
	elapsed := time.Since(start)
	time.Sleep(30 * time.Millisecond)
	dgs := s.UDP.All()
	c.Add("datagrams", int64(len(dgs)))
	// ---- analysis in capture order ----
	ai := 0 // next application send expected
	refresh := map[uint16]int{}
	var seqCnt uint32
	between := 0
	inRound := map[uint16]bool{}
	sinceRoundStart := 0
	tmplBody := map[uint16][]byte{}
	minRec := map[uint16]int{} // shortest record per template: set padding is shorter (refipfix.SameBody)
	for _, t := range tmpls {
		tmplBody[t.tid] = refipfix.EncodeTemplateRecord(t.tid, gen.Fields(t.elems))
		minRec[t.tid] = refipfix.MinRecordLen(gen.Widths(t.elems))
	}
	var tmplTrace []string
	refPos := map[uint16][]int{} // capture positions of the refresh copies of each template
	annIdx := map[uint16]int{}   // capture position of the application's own announcement
	for i, dg := range dgs {
		m, err := refipfix.ParseMessage(dg.Data)
		if err != nil {
			return fail("malformed-datagram", fmt.Sprintf("datagram %d is not exactly one well-formed message: %v", i, err), fmt.Sprintf("%x", dg.Data[:min(len(dg.Data), 200)]))
		}
		if m.Domain != domain {
			return fail("domain", fmt.Sprintf("datagram %d carries domain %d", i, m.Domain), nil)
		}
		if m.SetID == 2 {
			tid, _, _, err := refipfix.ParseTemplateRecord(m.Body)
			if err != nil {
				return fail("malformed-template", err.Error(), nil)
			}
			want, known := tmplBody[tid]
			if !known {
				return fail("unknown-template-retransmitted", fmt.Sprintf("template %d was never sent by the application", tid), nil)
			}
			if !refipfix.SameBody(m.Body, want, 4) {
				return fail("refresh-differs", fmt.Sprintf("datagram %d: template %d differs from the template the application sent", i, tid), fmt.Sprintf("%x vs %x", m.Body, want))
			}
			// the application's messages arrive in the order it sent them (one socket, loopback):
			// a template datagram is the application's own iff it is the next thing it sent
			if ai < len(sends) && sends[ai].kind == "T" && sends[ai].tid == tid {
				ai++
				annIdx[tid] = i
				tmplTrace = append(tmplTrace, fmt.Sprintf("#%d announcement of %d at %d ms", i, tid, dg.At.Sub(start).Milliseconds()))
			} else {
				refPos[tid] = append(refPos[tid], i)
				tmplTrace = append(tmplTrace, fmt.Sprintf("#%d refresh copy of %d at %d ms", i, tid, dg.At.Sub(start).Milliseconds()))
				refresh[tid]++
				if inRound[tid] {
					inRound = map[uint16]bool{}
				}
				if len(inRound) > 0 {
					between += sinceRoundStart
				}
				inRound[tid] = true
				sinceRoundStart = 0
			}
			if m.Seq != seqCnt {
				c.Add("sequence_numbers_off_the_running_count_(C08's_business)", 1)
			}
			continue
		}
		// application data: must be exactly the next thing the application sent
		if ai >= len(sends) {
			return fail("extra-data-datagram", fmt.Sprintf("datagram %d is a data message the application did not send", i), nil)
		}
		if sends[ai].kind != "D" || m.SetID != sends[ai].tid || !refipfix.SameBody(m.Body, sends[ai].body, minRec[m.SetID]) {
			for j2 := ai + 1; j2 < len(sends) && j2 < ai+50; j2++ { // a lost datagram shows as a later send matching
				if sends[j2].kind == "D" && m.SetID == sends[j2].tid && refipfix.SameBody(m.Body, sends[j2].body, minRec[m.SetID]) {
					c.Inconclusive(fmt.Sprintf("session %d: a datagram was lost on loopback", k))
					return ""
				}
			}
			return fail("data-altered", fmt.Sprintf("datagram %d does not carry the application's next message (intermixed or altered)", i), fmt.Sprintf("got set %d %x, next application send: %s set %d %x", m.SetID, m.Body, sends[ai].kind, sends[ai].tid, sends[ai].body))
		}
		seqCnt += uint32(sends[ai].nrec)
		if m.Seq != seqCnt {
			c.Add("sequence_numbers_off_the_running_count_(C08's_business)", 1)
		}
		ai++
		if len(inRound) > 0 {
			sinceRoundStart++
		}
	}
	if ai < len(sends) {
		c.Inconclusive(fmt.Sprintf("session %d: %d application datagrams did not arrive", k, len(sends)-ai))
		return ""
	}
	// "every template sent so far is retransmitted each refresh interval" (1 s here), whenever it was announced and
	// whatever the exporter's schedule (rounds, per-template deadlines): between a template's announcement, its
	// refresh copies and the end of the capture no gap may exceed 2.5 intervals (4 intervals in the confirming session). Times are the peer's arrival times;
	// a gap is reported only if a second, fresh session of the same kind shows one too (the caller does that).
	if len(dgs) > 0 {
		endAt := dgs[len(dgs)-1].At
		for tid, at := range annIdx {
			last := dgs[at].At
			for _, q := range append(append([]int{}, refPos[tid]...), -1) {
				now := endAt
				if q >= 0 {
					now = dgs[q].At
				}
				if gap := now.Sub(last); gap > gapLimit {
					st := 0
					if storm {
						st = 1
					}
					return fmt.Sprintf("gap|%d|template %d (announced %d ms into the session, %d refresh copies in all) was not retransmitted for %d ms (from %d ms to %d ms into the session) with a refresh interval of 1 s; %d templates announced, application datagrams kept arriving; trace: %v", st, tid, dgs[at].At.Sub(start).Milliseconds(), len(refPos[tid]), gap.Milliseconds(), last.Sub(start).Milliseconds(), now.Sub(start).Milliseconds(), len(annIdx), tmplTrace[max(0, len(tmplTrace)-40):])
				}
				last = now
			}
		}
	}
	if storm {
		c.Add("storm_sessions", 1)
		c.Add("storm_bursts_announced_during_a_round", int64(stormBursts))
	}
	// refresh counts
	minR, maxR := 1<<30, 0
	for i, t := range tmpls {
		if i >= len(tmpls)-late {
			continue // templates announced mid-run joined later
		}
		n := refresh[t.tid]
		if n < minR {
			minR = n
		}
		if n > maxR {
			maxR = n
		}
	}
	c.Add("refresh_template_datagrams", int64(func() int {
		n := 0
		for _, v := range refresh {
			n += v
		}
		return n
	}()))
	c.Add("app_data_between_datagrams_of_one_round", int64(between))
	c.Max("max_rounds_seen", int64(maxR))
	// (not in storm sessions: announcing 150-250 templates may itself span a refresh tick on a loaded machine, so the
	// templates of the start do not all join at the same round; the gap rule above covers them)
	if !storm && maxR-minR > 1 {
		return fail("round-incomplete", fmt.Sprintf("refresh copies per template range from %d to %d: some round did not carry every template sent so far", minR, maxR), fmt.Sprint(refresh))
	}
	for _, t := range tmpls[len(tmpls)-late:] {
		if n := refresh[t.tid]; !storm && n > maxR {
			return fail("round-incomplete", fmt.Sprintf("a template announced mid-run was retransmitted %d times, the ones announced at the start at most %d", n, maxR), nil)
		}
	}
	if trickle {
		c.Add("refresh_sessions_with_a_trickle_of_new_templates", 1)
	}
	if minR == 0 && elapsed >= 4*time.Second {
		return "no-refresh"
	}
	if between > 0 {
		c.Nontrivial(hx.H64("refresh", k, len(dgs), between))
	}
	c.Add("refresh_sessions", 1)
	c.Sample(4, map[string]any{"kind": "refresh", "ipv6": v6, "templates": len(tmpls), "templates_announced_mid_run": late, "pacing": []string{"bursts", "0-2ms gaps", "mostly idle"}[pacing],
		"application_sends": len(sends), "datagrams_captured": len(dgs), "refresh_copies_per_template": fmt.Sprint(refresh), "app_data_between_datagrams_of_one_round": between})
	return ""
}

// jsonRefreshSession: an exporter in JSON mode over UDP with the minimum refresh interval.
// The application's stream is one JSON document per record; templates are never
// transmitted in this mode, so across several refresh ticks the peer must see exactly the
// application's JSON documents, in order, and nothing else.
func jsonRefreshSession(c *hx.Ctx, k int, r *rand.Rand) {
	peer, err := peers.NewUDPPeer("udp", "127.0.0.1:0")
	if err != nil {
		c.Inconclusive("peer: " + err.Error())
		return
	}
	defer peer.Close()
	ep, err := exporter.InitExportingProcess(exporter.ExporterInput{CollectorAddress: peer.Addr(), CollectorProtocol: "udp", ObservationDomainID: r.Uint32(), TempRefTimeout: 1, SendJSONRecord: true})
	if err != nil {
		c.Inconclusive("session: " + err.Error())
		return
	}
	defer ep.CloseConnToCollector()
	t := tmpl{tid: ep.NewTemplateID(), elems: []regtable.Elem{lib.CustomElems[11], lib.CustomElems[8]}}
	ts, _ := lib.TemplateSet(t.tid, t.elems, 0)
	if _, err := ep.SendSet(ts); err != nil {
		c.Violation(k, "send-error", "template (json mode): "+err.Error(), nil)
		return
	}
	start := time.Now()
	sent := 0
	for time.Since(start) < 2400*time.Millisecond {
		sent++
		set := entities.NewSet(false)
		rec := [][]byte{refipfix.PU(4, uint64(sent)), []byte(fmt.Sprintf("rec-%d", sent))}
		if err := lib.FillDataSet(set, t.tid, t.elems, [][][]byte{rec}, nil); err != nil {
			panic(err)
		}
		if _, err := ep.SendSet(set); err != nil {
			c.Violation(k, "send-error", fmt.Sprintf("json data send %d: %v", sent, err), nil)
			return
		}
		time.Sleep(time.Duration(2+r.IntN(30)) * time.Millisecond)
	}
	time.Sleep(30 * time.Millisecond)
	dgs := peer.All()
	next := 1
	for i, dg := range dgs {
		var doc struct {
			IPFIX map[string]interface{} `json:"ipfix"`
			TS    string                 `json:"@timestamp"`
		}
		if err := json.Unmarshal(dg.Data, &doc); err != nil || doc.IPFIX == nil {
			c.Violation(k, "json-stream-corrupted", fmt.Sprintf("datagram %d of a JSON-mode exporter is not one of the application's JSON documents (%d bytes, starts %x): background work injected something into the stream", i, len(dg.Data), dg.Data[:min(len(dg.Data), 24)]), nil)
			return
		}
		n, _ := doc.IPFIX["vfUnsigned32"].(float64)
		if int(n) != next || doc.IPFIX["vfString"] != fmt.Sprintf("rec-%d", next) {
			if int(n) > next {
				c.Inconclusive(fmt.Sprintf("session %d: a JSON datagram was lost on loopback", k))
				return
			}
			c.Violation(k, "json-stream-order", fmt.Sprintf("datagram %d carries record %v, expected %d", i, doc.IPFIX["vfUnsigned32"], next), nil)
			return
		}
		next++
	}
	if next-1 != sent {
		c.Inconclusive(fmt.Sprintf("session %d: %d of %d JSON datagrams arrived", k, next-1, sent))
		return
	}
	c.Add("json_sessions", 1)
	c.Add("json_datagrams", int64(len(dgs)))
	c.Nontrivial(hx.H64("json", k, sent))
	c.Sample(6, map[string]any{"kind": "jsonrefresh", "records_sent_as_json": sent, "datagrams_captured": len(dgs), "refresh_ticks_covered": 2})
}

// backpressureSession: a TCP collector that accepts but does not read for a while, so that the
// application's SendSet blocks in Write while the connection checker (interval 20 ms) keeps
// probing the same connection. The probe must not disturb the blocked send: every SendSet must
// succeed and the stream, once drained, must be exactly the application's messages.
func backpressureSession(c *hx.Ctx, k int, r *rand.Rand) {
	ln, err := net.Listen("tcp", "127.0.0.1:0")
	if err != nil {
		c.Inconclusive("listen: " + err.Error())
		return
	}
	defer ln.Close()
	resume := make(chan struct{})
	type capture struct {
		data []byte
		err  error
	}
	capCh := make(chan capture, 1)
	go func() {
		conn, err := ln.Accept()
		if err != nil {
			capCh <- capture{nil, err}
			return
		}
		defer conn.Close()
		<-resume
		b, err := io.ReadAll(conn)
		capCh <- capture{b, err}
	}()
	domain := r.Uint32()
	ep, err := exporter.InitExportingProcess(exporter.ExporterInput{CollectorAddress: ln.Addr().String(), CollectorProtocol: "tcp", ObservationDomainID: domain, CheckConnInterval: 20 * time.Millisecond})
	if err != nil {
		c.Inconclusive("session: " + err.Error())
		close(resume)
		return
	}
	t := tmpl{tid: ep.NewTemplateID(), elems: []regtable.Elem{lib.CustomElems[11], lib.CustomElems[8]}}
	ts, _ := lib.TemplateSet(t.tid, t.elems, 0)
	var want [][]byte
	if _, err := ep.SendSet(ts); err != nil {
		c.Violation(k, "send-error", err.Error(), nil)
		close(resume)
		ep.CloseConnToCollector()
		return
	}
	want = append(want, refipfix.EncodeTemplateRecord(t.tid, gen.Fields(t.elems)))
	// one backpressure session in 16 stalls for 6.5 s instead of 0.3 s: long enough for any send timeout an exporter
	// may have. There a send MAY fail; what reaches the peer must still be whole messages of the application, in
	// order - a partial message is tolerable only as the very last thing the exporter ever wrote
	long := (k/8+c.Batch)%16 == 3
	stall := 300 * time.Millisecond
	if long {
		stall = 6500 * time.Millisecond
	}
	var progress atomic.Int64
	stopMon := make(chan struct{})
	go func() { // start draining once the sender has been stuck for the stall time
		last, since := int64(-1), time.Now()
		for {
			select {
			case <-stopMon:
				close(resume)
				return
			default:
			}
			if p := progress.Load(); p != last {
				last, since = p, time.Now()
			} else if time.Since(since) > stall {
				close(resume)
				return
			}
			time.Sleep(5 * time.Millisecond)
		}
	}()
	type attempt struct {
		body []byte
		ok   bool
	}
	attempts := []attempt{{want[0], true}}
	nsend := 600 + r.IntN(600)
	pad := gen.Bytes(r, 12000)
	var sendErr error
	failedAt, afterFail, okAfterFail := -1, 0, 0
	for i := 1; i <= nsend; i++ {
		rec := [][]byte{refipfix.PU(4, uint64(i)), pad[:8000+r.IntN(4000)]}
		set := entities.NewSet(false)
		if err := lib.FillDataSet(set, t.tid, t.elems, [][][]byte{rec}, nil); err != nil {
			panic(err)
		}
		body, _ := refipfix.EncodeRecord(gen.Widths(t.elems), rec)
		if _, err := ep.SendSet(set); err != nil {
			if failedAt < 0 {
				sendErr, failedAt = err, i
			}
			attempts = append(attempts, attempt{body, false})
			if !long {
				break
			}
		} else {
			attempts = append(attempts, attempt{body, true})
			if failedAt >= 0 {
				okAfterFail++
			}
			progress.Add(1)
		}
		if failedAt >= 0 {
			// the application goes on for a while after a failed send (the peer is reading again by now)
			if afterFail++; afterFail > 12 {
				break
			}
			time.Sleep(40 * time.Millisecond)
		}
	}
	select {
	case <-resume:
	default:
		close(stopMon)
	}
	ep.CloseConnToCollector()
	var cp capture
	select {
	case cp = <-capCh:
	case <-time.After(30 * time.Second):
		c.Inconclusive("backpressure: the peer did not finish reading")
		return
	}
	blocked := false
	select {
	case <-stopMon:
	default:
		blocked = true // the monitor resumed the reader because the sender was stuck: back-pressure was reached
	}
	if sendErr != nil && !long {
		c.Violation(k, "send-failed-under-backpressure", fmt.Sprintf("SendSet %d of %d failed with %q although the collector never closed the connection (it was only slow to read)", failedAt, nsend, sendErr), nil)
		return
	}
	if sendErr != nil {
		c.Add("long_stall_sessions_with_a_failed_send", 1)
	}
	msgs, tail := refipfix.Frame(cp.data)
	if len(tail) != 0 && !(long && failedAt >= 0 && okAfterFail == 0) {
		c.Violation(k, "stream-corrupt-under-backpressure", fmt.Sprintf("%d whole messages + %d stray bytes at the peer (first failed send: %d, successful sends after it: %d)", len(msgs), len(tail), failedAt, okAfterFail), nil)
		return
	}
	ptr := 0
	for i, m := range msgs {
		pm, err := refipfix.ParseMessage(m)
		found := false
		for err == nil && ptr < len(attempts) {
			mr := 4
			if ptr > 0 {
				mr = refipfix.MinRecordLen(gen.Widths(t.elems))
			}
			at := attempts[ptr]
			ptr++
			if refipfix.SameBody(pm.Body, at.body, mr) {
				found = true
				break
			}
			if at.ok {
				break // a successful send is missing from the stream
			}
		}
		if !found {
			c.Violation(k, "stream-corrupt-under-backpressure", fmt.Sprintf("message %d at the peer is not the application's next send (%v)", i, err), nil)
			return
		}
	}
	for ; ptr < len(attempts); ptr++ {
		if attempts[ptr].ok {
			c.Violation(k, "stream-corrupt-under-backpressure", fmt.Sprintf("%d whole messages at the peer; successful send %d is not among them", len(msgs), ptr), nil)
			return
		}
	}
	if long {
		c.Add("long_stall_sessions", 1)
	}
	c.Add("backpressure_sessions", 1)
	if blocked {
		c.Add("backpressure_sessions_where_the_sender_blocked", 1)
		c.Nontrivial(hx.H64("backpressure", k, nsend))
	}
	c.Add("messages_at_peer_checked", int64(len(msgs)))
	c.Sample(8, map[string]any{"kind": "backpressure", "sends": nsend, "bytes_at_peer": len(cp.data), "sender_blocked_until_peer_resumed": blocked, "check_conn_interval_ms": 20})
}

func peerCloseSession(c *hx.Ctx, k int, r *rand.Rand) {
	wait := time.Second
	for attempt := 0; attempt < 3; attempt++ {
		s, err := lib.NewExpSession("tcp", r.IntN(2) == 0, r.Uint32(), 0, 25*time.Millisecond)
		if err != nil {
			c.Inconclusive("session: " + err.Error())
			return
		}
		t := tmpl{tid: s.EP.NewTemplateID(), elems: []regtable.Elem{lib.CustomElems[11]}}
		set, _ := lib.TemplateSet(t.tid, t.elems, 0)
		if _, err := s.EP.SendSet(set); err != nil {
			c.Violation(k, "send-error", err.Error(), nil)
			s.Close()
			return
		}
		ds, _ := dataSet(t, 1, 1, r)
		if _, err := s.EP.SendSet(ds); err != nil {
			c.Violation(k, "send-error", err.Error(), nil)
			s.Close()
			return
		}
		s.Conn.Conn.Close() // the collector side closes
		time.Sleep(wait)
		ds, _ = dataSet(t, 2, 1, r)
		_, err = s.EP.SendSet(ds)
		if err != nil {
			// and it keeps failing
			ds, _ = dataSet(t, 3, 1, r)
			if _, err2 := s.EP.SendSet(ds); err2 == nil {
				c.Violation(k, "send-after-failure-succeeded", "a send failed after the peer closed, the next one succeeded", nil)
			}
			c.Add("peer_close_noticed", 1)
			c.Nontrivial(hx.H64("peerclose", k, attempt))
			s.Close()
			return
		}
		s.Close()
		wait *= 2
	}
	c.Violation(k, "peer-close-not-noticed", "the peer closed the TCP connection; after silent waits of 1, 2 and 4 s (check interval 25 ms) the first SendSet still succeeded, so the data vanished", nil)
}

func closeSession(c *hx.Ctx, k int, r *rand.Rand, j int) {
	proto := []string{"tcp", "udp"}[r.IntN(2)]
	s, err := lib.NewExpSession(proto, false, r.Uint32(), 1, 25*time.Millisecond)
	if err != nil {
		c.Inconclusive("session: " + err.Error())
		return
	}
	t := tmpl{tid: s.EP.NewTemplateID(), elems: []regtable.Elem{lib.CustomElems[11], lib.CustomElems[8]}}
	set, _ := lib.TemplateSet(t.tid, t.elems, 0)
	_, err = s.EP.SendSet(set)
	if err != nil {
		c.Violation(k, "send-error", err.Error(), nil)
		s.Close()
		return
	}
	var acked [][]byte
	var firstFailed []byte
	closedRet := make(chan struct{})
	appDone := make(chan struct{})
	var sentAfterClose, failedAfterClose int
	appSeed := r.Uint64()
	go func() { // the application: one goroutine
		defer close(appDone)
		ar := rand.New(rand.NewPCG(appSeed, 3))
		afterClose := 0
		for i := uint32(1); ; i++ {
			isClosed := false
			select {
			case <-closedRet:
				isClosed = true
			default:
			}
			ds, body := dataSet(t, i, 1+ar.IntN(3), ar)
			_, err := s.EP.SendSet(ds)
			if isClosed {
				afterClose++
				sentAfterClose++
				if err != nil {
					failedAfterClose++
				}
				if afterClose >= 3 {
					return
				}
				continue
			}
			if err == nil {
				acked = append(acked, body)
			} else if firstFailed == nil {
				firstFailed = body
			}
			if i > 3000 {
				time.Sleep(100 * time.Microsecond)
			}
		}
	}()
	time.Sleep(time.Duration(r.IntN(3000)) * time.Microsecond)
	ng := 1 + r.IntN(8)
	var wg sync.WaitGroup
	for g := 0; g < ng; g++ {
		wg.Add(1)
		go func() {
			defer wg.Done()
			s.EP.CloseConnToCollector()
			s.EP.CloseConnToCollector()
		}()
	}
	done := make(chan struct{})
	go func() { wg.Wait(); close(done) }()
	select {
	case <-done:
	case <-time.After(30 * time.Second):
		buf := new(bytes.Buffer)
		pprof.Lookup("goroutine").WriteTo(buf, 2)
		c.Violation(k, "close-hang", fmt.Sprintf("CloseConnToCollector called from %d goroutines did not return within 30 s", ng), buf.String()[:min(buf.Len(), 8000)])
		return
	}
	close(closedRet)
	<-appDone
	c.Add("close_races", 1)
	c.Add("concurrent_closers", int64(ng))
	if failedAfterClose != sentAfterClose {
		c.Violation(k, "send-after-close-succeeded", fmt.Sprintf("%d of %d SendSet calls made after CloseConnToCollector returned succeeded", sentAfterClose-failedAfterClose, sentAfterClose), nil)
	}
	// what the peer saw
	time.Sleep(2 * time.Millisecond)
	if proto == "tcp" {
		s.Conn.WaitEOF(10 * time.Second)
		stream := s.Conn.Bytes()
		msgs, tail := refipfix.Frame(stream)
		if pm, err := refipfix.ParseMessage(append(msgs, nil)[0]); err != nil || pm.SetID != 2 ||
			!refipfix.SameBody(pm.Body, refipfix.EncodeTemplateRecord(t.tid, gen.Fields(t.elems)), 4) {
			c.Violation(k, "stream-short", fmt.Sprintf("the first message at the peer is not the template the application sent (%v)", err), nil)
			s.Close()
			return
		}
		msgs = msgs[1:] // framed at the messages' own length fields, not at the count SendSet reported
		for i, m := range msgs {
			pm, err := refipfix.ParseMessage(m)
			if err != nil {
				c.Violation(k, "stream-corrupt", fmt.Sprintf("message %d at the peer: %v", i, err), nil)
				s.Close()
				return
			}
			if i < len(acked) {
				if !refipfix.SameBody(pm.Body, acked[i], refipfix.MinRecordLen(gen.Widths(t.elems))) {
					c.Violation(k, "stream-mismatch", fmt.Sprintf("message %d at the peer is not the %d-th acknowledged send", i, i), nil)
					s.Close()
					return
				}
			} else if i == len(acked) && firstFailed != nil && refipfix.SameBody(pm.Body, firstFailed, refipfix.MinRecordLen(gen.Widths(t.elems))) {
				// the failed send made it out completely: acceptable (at most one)
			} else {
				c.Violation(k, "bytes-after-acknowledged", fmt.Sprintf("the peer holds %d messages, the application had %d acknowledged sends", len(msgs), len(acked)), nil)
				s.Close()
				return
			}
		}
		if len(msgs) < len(acked) {
			c.Violation(k, "acknowledged-send-missing", fmt.Sprintf("%d sends were acknowledged before Close, the peer holds %d", len(acked), len(msgs)), nil)
		}
		if len(tail) > 0 {
			// a prefix of one failed send
			if firstFailed == nil || len(msgs) > len(acked) {
				c.Violation(k, "stray-tail", fmt.Sprintf("%d stray bytes at the end of the peer's stream", len(tail)), nil)
			}
		}
		c.Add("messages_at_peer_checked", int64(len(msgs)))
	} else {
		for i, dg := range s.UDP.All() {
			if _, err := refipfix.ParseMessage(dg.Data); err != nil {
				c.Violation(k, "malformed-datagram", fmt.Sprintf("datagram %d: %v", i, err), nil)
				break
			}
		}
	}
	if len(acked) > 0 {
		c.Nontrivial(hx.H64("close", k, j, len(acked), ng))
	}
	if j == 0 {
		c.Sample(8, map[string]any{"kind": "close", "proto": proto, "concurrent_closers": ng, "acknowledged_sends_before_close": len(acked), "sends_after_close": sentAfterClose, "failed_after_close": failedAfterClose})
	}
	s.Close()
}

// C03: collector decoding is total and exact on arbitrary bytes.
//
// Every evaluation presents one byte string to a fresh collecting process (one of the 3
// decoding modes) that was first put into a template state, through the VerifDecodePacket
// hook. Monitors: panic capture, CPU-time and heap-growth budgets per call (hx.Watch), and
// the exactness oracle of package mirror (refipfix's reading of the same bytes under the
// template in force).
package main

import (
	"encoding/binary"
	"fmt"
	"math/rand/v2"
	"net"
	"time"

	"github.com/vmware/go-ipfix/pkg/collector"

	"verif/harness/gen"
	"verif/harness/hx"
	"verif/harness/lib"
	"verif/harness/mirror"
	"verif/harness/refipfix"
	"verif/harness/regtable"
)

var modes = []string{mirror.Strict, mirror.Keep, mirror.Drop}

type tdef struct {
	tid    uint16
	fields []refipfix.Field
	elems  []regtable.Elem // parallel; Name=="" for unknown
}

func unknownField(r *rand.Rand) refipfix.Field {
	var f refipfix.Field
	switch r.IntN(3) {
	case 0: // IANA id absent from the registry
		for {
			f.ID = uint16(500 + r.IntN(30000))
			if !lib.Table.Mentioned(0, f.ID) {
				break
			}
		}
	case 1: // unknown enterprise
		f.Ent = uint32(1 + r.IntN(20000))
		if f.Ent == 29305 || f.Ent == 56506-0 || f.Ent == lib.CustomPEN {
			f.Ent = 4444
		}
		f.ID = uint16(1 + r.IntN(32000))
	default: // known enterprise, unknown id
		f.Ent = []uint32{56506, 29305, lib.CustomPEN}[r.IntN(3)]
		for {
			f.ID = uint16(2000 + r.IntN(30000))
			if !lib.Table.Mentioned(f.Ent, f.ID) {
				break
			}
		}
	}
	switch r.IntN(8) {
	case 0:
		f.Len = refipfix.VarLen
	case 1:
		f.Len = 0
	default:
		f.Len = uint16(1 + r.IntN(20))
	}
	return f
}

// mkTemplate draws a template definition of the given class.
func mkTemplate(r *rand.Rand, mode string, class string, tid uint16) tdef {
	t := tdef{tid: tid}
	add := func(e regtable.Elem) {
		t.fields = append(t.fields, e.Field())
		t.elems = append(t.elems, e)
	}
	addUnknown := func(f refipfix.Field) {
		t.fields = append(t.fields, f)
		t.elems = append(t.elems, regtable.Elem{ID: f.ID, Ent: f.Ent, Len: f.Len, Type: refipfix.OctetArray})
	}
	switch class {
	case "natural":
		n := 1 + r.IntN(8)
		for _, e := range gen.Template(r, lib.Pool, n) {
			add(e)
			if mode != mirror.Strict && r.IntN(4) == 0 {
				addUnknown(unknownField(r))
			}
		}
	case "zero-fields":
	case "zero-length-unknown":
		n := 1 + r.IntN(3)
		for i := 0; i < n; i++ {
			f := unknownField(r)
			f.Len = 0
			addUnknown(f)
		}
	case "all-variable":
		n := 1 + r.IntN(4)
		for len(t.fields) < n {
			e := lib.Pool[r.IntN(len(lib.Pool))]
			if e.Len == refipfix.VarLen {
				add(e)
			}
		}
	case "one-byte-fields":
		n := 1 + r.IntN(3)
		for len(t.fields) < n {
			e := lib.Pool[r.IntN(len(lib.Pool))]
			if e.Len == 1 {
				add(e)
			}
		}
	case "signed64":
		add(lib.CustomElems[2])
		if r.IntN(2) == 0 {
			add(lib.CustomElems[8])
		}
	case "wide-fixed":
		add(lib.CustomElems[6])
		add(lib.CustomElems[11])
	case "reduced-size": // known element announced with a shorter wire length (gray zone: totality only)
		for _, e := range gen.Template(r, lib.Pool, 1+r.IntN(4)) {
			f := e.Field()
			if e.Len != refipfix.VarLen && e.Len > 1 && r.IntN(2) == 0 {
				f.Len = uint16(1 + r.IntN(int(e.Len)))
			}
			t.fields = append(t.fields, f)
			t.elems = append(t.elems, e)
		}
	case "many-fields":
		n := 200 + r.IntN(1800)
		for i := 0; i < n; i++ {
			e := lib.Pool[r.IntN(len(lib.Pool))]
			if e.Len <= 2 {
				add(e)
			}
		}
	}
	return t
}

func tmplMsg(domain uint32, t tdef) []byte {
	return refipfix.BuildMessage(domain, 0, 1700000000, 2, refipfix.EncodeTemplateRecord(t.tid, t.fields))
}

// dataMsg builds a valid data message for layout l (the model's view of the template).
func dataMsg(r *rand.Rand, domain uint32, tid uint16, l *mirror.Layout, nrec int) []byte {
	var body []byte
	for i := 0; i < nrec; i++ {
		for j, w := range l.Widths {
			var p []byte
			e := regtable.Elem{Type: l.Types[j], Len: w}
			if !l.Known[j] || e.Type == refipfix.OctetArray || e.Type == refipfix.String {
				if w == refipfix.VarLen {
					p = gen.Bytes(r, gen.VarLen(r, 600))
				} else {
					p = gen.Bytes(r, int(w))
				}
			} else {
				p = gen.Value(r, e, 600)
			}
			f, err := refipfix.EncodeField(w, p)
			if err != nil {
				panic(err)
			}
			body = append(body, f...)
		}
	}
	if len(body) > 65000 {
		body = body[:65000]
	}
	return refipfix.BuildMessage(domain, 0, 1700000000, tid, body)
}

type input struct {
	kind string
	b    []byte
}

func mutations(r *rand.Rand, base []byte, label string, thorough bool) []input {
	var out []input
	out = append(out, input{label + ":valid", base})
	// truncation
	if len(base) <= 140 {
		for i := 0; i < len(base); i++ {
			out = append(out, input{label + ":truncate", base[:i]})
		}
	} else {
		n := 24
		for i := 0; i < n; i++ {
			out = append(out, input{label + ":truncate", base[:r.IntN(len(base))]})
		}
		for i := 1; i <= 8 && i < len(base); i++ {
			out = append(out, input{label + ":truncate-tail", base[:len(base)-i]})
		}
	}
	// extension (padding)
	for i := 1; i <= 9; i++ {
		ext := append(append([]byte{}, base...), make([]byte, i)...)
		if r.IntN(2) == 0 {
			copy(ext[len(base):], gen.Bytes(r, i))
		}
		out = append(out, input{label + ":extend", ext})
		// with the length fields corrected (legitimate padding inside the set)
		fix := append([]byte{}, ext...)
		if len(fix) >= 20 {
			binary.BigEndian.PutUint16(fix[2:4], uint16(len(fix)))
			binary.BigEndian.PutUint16(fix[18:20], uint16(len(fix)-16))
			out = append(out, input{label + ":pad", fix})
		}
	}
	// bit flips
	for i := 0; i < 12 && len(base) > 0; i++ {
		m := append([]byte{}, base...)
		p := r.IntN(len(m))
		if r.IntN(3) == 0 && len(m) > 20 {
			p = 20 + r.IntN(len(m)-20)
		}
		m[p] ^= 1 << uint(r.IntN(8))
		out = append(out, input{label + ":bitflip", m})
	}
	// length-field edits
	if len(base) >= 20 {
		for _, d := range []int{-17, -5, -1, 1, 4, 1000} {
			m := append([]byte{}, base...)
			binary.BigEndian.PutUint16(m[2:4], uint16(len(m)+d))
			out = append(out, input{label + ":msglen", m})
			m = append([]byte{}, base...)
			binary.BigEndian.PutUint16(m[18:20], uint16(len(m)-16+d))
			out = append(out, input{label + ":setlen", m})
		}
		// set id edits
		for _, id := range []uint16{0, 1, 2, 3, 255, 256, uint16(300 + r.IntN(60000))} {
			m := append([]byte{}, base...)
			binary.BigEndian.PutUint16(m[16:18], id)
			out = append(out, input{label + ":setid", m})
		}
		// byte edits that hit variable-length prefixes / field counts: set a body byte to 0xFF, 0x00, 0xFE
		for i := 0; i < 10 && len(base) > 20; i++ {
			m := append([]byte{}, base...)
			p := 20 + r.IntN(len(m)-20)
			m[p] = []byte{0xff, 0x00, 0xfe, 0x80, 0x7f}[r.IntN(5)]
			out = append(out, input{label + ":byteset", m})
		}
		// version edits
		m := append([]byte{}, base...)
		binary.BigEndian.PutUint16(m[0:2], uint16(r.IntN(12)))
		out = append(out, input{label + ":version", m})
	}
	return out
}

func main() {
	c := hx.New("C03")
	defer c.Finish()
	lib.Init()
	reg := lib.Reg()
	w := c.NewWatch(5*time.Second, 384<<20)
	total := c.Pick(9600, 240000) // cases; each expands to ~60-250 decode calls
	per := total / c.NBatch
	from, to := c.Range(per)
	stateClasses := []string{"none", "natural", "natural", "natural", "zero-fields", "zero-length-unknown", "all-variable", "one-byte-fields",
		"signed64", "wide-fixed", "reduced-size", "replaced", "invalidated", "many-fields", "low-id"}
	for k := from; k < to; k++ {
		r := c.Rand(k, 0)
		mode := modes[k%3]
		sc := stateClasses[(k/3)%len(stateClasses)]
		domain := uint32(r.IntN(3))
		if r.IntN(5) == 0 {
			domain = r.Uint32()
		}
		// ---- template state ----
		var setup [][]byte
		siblings := false
		tid := uint16(256 + r.IntN(1000))
		cls := sc
		switch sc {
		case "none":
		case "replaced":
			setup = append(setup, tmplMsg(domain, mkTemplate(r, mode, "natural", tid)))
			setup = append(setup, tmplMsg(domain, mkTemplate(r, mode, []string{"natural", "one-byte-fields", "all-variable"}[r.IntN(3)], tid)))
		case "invalidated":
			setup = append(setup, tmplMsg(domain, mkTemplate(r, mode, "natural", tid)))
			bad := tmplMsg(domain, mkTemplate(r, mode, "natural", tid))
			cut := 24 + r.IntN(len(bad)-24)
			setup = append(setup, bad[:cut])
		case "low-id":
			tid = []uint16{0, 1, 3, 4, 255}[r.IntN(5)]
			setup = append(setup, tmplMsg(domain, mkTemplate(r, mode, "natural", tid)))
		default:
			setup = append(setup, tmplMsg(domain, mkTemplate(r, mode, sc, tid)))
		}
		if sc != "none" && r.IntN(3) == 0 { // an unrelated template next to it
			setup = append(setup, tmplMsg(domain, mkTemplate(r, mode, "natural", tid+1)))
			setup = append(setup, tmplMsg(domain+1, mkTemplate(r, mode, "natural", tid)))
		}
		if mode != mirror.Strict && len(setup) > 0 && r.IntN(3) == 0 {
			// the unknown elements of the template in force also occur, announced with OTHER lengths, in templates of
			// another domain and another id, received before and after it: the width of a field is the one the
			// template in force announced, not one remembered by element id
			if _, fields, _, err := refipfix.ParseTemplateRecord(setup[0][20:]); err == nil {
				sib := func(delta int) []refipfix.Field {
					var out []refipfix.Field
					for _, f := range fields {
						if _, known := reg.Lookup(f.Ent, f.ID); !known && f.Len != refipfix.VarLen {
							g := f
							g.Len = uint16((int(f.Len) + delta) % 40)
							out = append(out, g)
						}
					}
					return out
				}
				if a, b := sib(3), sib(7); len(a) > 0 {
					setup = append([][]byte{tmplMsg(domain+7, tdef{tid: tid + 5, fields: a})}, setup...)
					setup = append(setup, tmplMsg(domain, tdef{tid: tid + 6, fields: b}))
					siblings = true
				}
			}
		}
		model := mirror.Table{}
		for _, m := range setup {
			model.Apply(reg, mode, m)
		}
		lay := model[mirror.Key{Domain: domain, TID: tid}]
		if siblings {
			c.Add("states_with_the_same_unknown_elements_at_other_widths_in_sibling_templates", 1)
		}
		// ---- inputs ----
		var inputs []input
		kindSel := r.IntN(10)
		switch {
		case kindSel < 2: // random bytes
			for i := 0; i < 60; i++ {
				n := r.IntN(200)
				if r.IntN(6) == 0 {
					n = r.IntN(65536)
				}
				b := gen.Bytes(r, n)
				if len(b) >= 2 && r.IntN(2) == 0 {
					b[0], b[1] = 0, 10
				}
				if len(b) >= 18 && r.IntN(2) == 0 {
					binary.BigEndian.PutUint16(b[16:18], tid)
					if len(b) >= 16 {
						binary.BigEndian.PutUint32(b[12:16], domain)
					}
				}
				inputs = append(inputs, input{"random", b})
			}
		case kindSel < 4: // grammar: valid header + set header + PRNG body
			for i := 0; i < 60; i++ {
				id := tid
				switch r.IntN(5) {
				case 0:
					id = 2
				case 1:
					id = uint16(r.IntN(65536))
				}
				n := r.IntN(300)
				if lay != nil && r.IntN(2) == 0 {
					if min := refipfix.MinRecordLen(lay.Widths); min > 0 {
						n = min*r.IntN(6) + r.IntN(2)*r.IntN(min)
					}
				}
				body := gen.Bytes(r, n)
				m := refipfix.BuildMessage(domain, r.Uint32(), r.Uint32(), id, body)
				if r.IntN(4) == 0 {
					binary.BigEndian.PutUint16(m[2:4], uint16(r.IntN(65536)))
				}
				if r.IntN(4) == 0 {
					binary.BigEndian.PutUint16(m[18:20], uint16(r.IntN(65536)))
				}
				inputs = append(inputs, input{"grammar", m})
			}
		case kindSel < 8 && lay != nil: // valid data message, mutated
			nrec := 1 + r.IntN(4)
			if r.IntN(8) == 0 {
				nrec = 30
			}
			inputs = mutations(r, dataMsg(r, domain, tid, lay, nrec), "data", c.Thorough())
		default: // valid template message, mutated
			tc := []string{"natural", "natural", "zero-fields", "zero-length-unknown", "all-variable", "signed64", "reduced-size"}[r.IntN(7)]
			inputs = mutations(r, tmplMsg(domain, mkTemplate(r, mode, tc, tid)), "template", c.Thorough())
		}
		desc := map[string]any{"mode": mode, "state": cls, "domain": domain, "tid": tid, "setup": hexes(setup), "inputs": len(inputs)}
		if len(inputs) > 0 {
			desc["first_kind"] = inputs[0].kind
		}
		c.Journal(k, desc)
		for j, in := range inputs {
			evaluate(c, w, reg, k, j, mode, cls, setup, model, in)
		}
		if k < from+3 && len(inputs) > 0 {
			c.Sample(8, map[string]any{"mode": mode, "state": cls, "setup": hexes(setup), "input_kind": inputs[len(inputs)/2].kind, "input": fmt.Sprintf("%x", clip(inputs[len(inputs)/2].b, 96))})
		}
	}
	if c.Count < 0 && c.Start == 0 {
		socketPhase(c, reg, c.Pick(3000, 60000))
	}
}

// socketPhase presents hostile inputs through the real UDP and TCP handlers (goroutines,
// sockets) instead of the hook: a panic in a handler goroutine kills this process (the
// front-end attributes the crash to the journaled phase), a stuck handler or a dead
// listener shows as an undelivered probe message sent afterwards from the same socket.
func socketPhase(c *hx.Ctx, reg *mirror.Registry, n int) {
	big := c.NewWatch(240*time.Second, 2<<30)
	for pi, proto := range []string{"udp", "tcp"} {
		k := -10 - pi
		r := c.Rand(k, 7)
		mode := []string{mirror.Keep, mirror.Strict, mirror.Drop}[(c.Batch+pi)%3]
		c.Journal(k, map[string]any{"phase": "hostile inputs through the real " + proto + " handler", "mode": mode, "inputs": n})
		coll, err := lib.StartCollector(collector.CollectorInput{Address: "127.0.0.1:0", Protocol: proto, MaxBufferSize: 65535, DecodingMode: collector.DecodingMode(mode)})
		if err != nil {
			c.Inconclusive("socket phase: " + err.Error())
			return
		}
		big.Begin(k, "socket-phase-"+proto, nil)
		domain := uint32(0x50C00000 | uint32(c.Batch)<<8 | uint32(pi))
		tid := uint16(400)
		t := mkTemplate(r, mode, "natural", tid)
		tm := tmplMsg(domain, t)
		model := mirror.Table{}
		model.Apply(reg, mode, tm)
		lay := model[mirror.Key{Domain: domain, TID: tid}]
		var inputs []input
		for len(inputs) < n {
			switch r.IntN(3) {
			case 0:
				b := gen.Bytes(r, r.IntN(300))
				if len(b) >= 18 {
					b[0], b[1] = 0, 10
					binary.BigEndian.PutUint32(b[12:16], domain)
					binary.BigEndian.PutUint16(b[16:18], tid)
				}
				inputs = append(inputs, input{"random", b})
			case 1:
				if lay != nil {
					inputs = append(inputs, mutations(r, dataMsg(r, domain, tid, lay, 1+r.IntN(3)), "data", false)...)
				}
			default:
				tc := []string{"natural", "zero-fields", "zero-length-unknown", "all-variable", "signed64", "reduced-size"}[r.IntN(6)]
				inputs = append(inputs, mutations(r, tmplMsg(domain, mkTemplate(r, mode, tc, uint16(401+r.IntN(5)))), "template", false)...)
			}
		}
		inputs = inputs[:n]
		probeDomain := domain | 0x80
		probeT := tdef{tid: 777, fields: gen.Fields([]regtable.Elem{lib.CustomElems[11]}), elems: []regtable.Elem{lib.CustomElems[11]}}
		probe := [][]byte{tmplMsg(probeDomain, probeT), refipfix.BuildMessage(probeDomain, 1, 1, 777, refipfix.PU(4, 0xFEEDF00D))}
		if proto == "udp" {
			conn, err := net.Dial("udp", coll.Addr())
			if err != nil {
				c.Inconclusive("socket phase: " + err.Error())
				return
			}
			conn.Write(tm)
			for i, in := range inputs {
				if len(in.b) > 65000 {
					continue
				}
				conn.Write(in.b)
				if i%64 == 63 {
					time.Sleep(time.Millisecond) // do not overflow the socket buffer: the inputs should be decoded, not dropped
				}
			}
			// the same client (same source address, hence the same handler goroutine) must still be served
			ok := false
			for attempt := 0; attempt < 5 && !ok; attempt++ {
				conn.Write(probe[0])
				conn.Write(probe[1])
				_, ok = coll.Wait(probeDomain, 2, 3*time.Second)
			}
			conn.Close()
			if !ok {
				c.Violation(k, "unresponsive-after-hostile-input:udp", fmt.Sprintf("after %d hostile datagrams the collector no longer decodes valid messages from the same exporter address (5 attempts, 15 s)", len(inputs)), map[string]any{"mode": mode})
			}
		} else {
			for i := 0; i < len(inputs); i += 4 {
				conn, err := net.Dial("tcp", coll.Addr())
				if err != nil {
					c.Violation(k, "listener-dead:tcp", fmt.Sprintf("cannot connect after %d hostile inputs: %v", i, err), nil)
					break
				}
				conn.Write(tm)
				for _, in := range inputs[i:min(i+4, len(inputs))] {
					// make it one frame for the TCP reader: the header length covers what is sent
					b := append([]byte{}, in.b...)
					if len(b) >= 4 && len(b) <= 65535 {
						binary.BigEndian.PutUint16(b[2:4], uint16(len(b)))
					}
					conn.Write(b)
				}
				conn.Close()
			}
			conn, err := net.Dial("tcp", coll.Addr())
			ok := false
			if err == nil {
				conn.Write(probe[0])
				conn.Write(probe[1])
				_, ok = coll.Wait(probeDomain, 2, 15*time.Second)
				conn.Close()
			}
			if !ok {
				c.Violation(k, "unresponsive-after-hostile-input:tcp", fmt.Sprintf("after %d hostile inputs over TCP a fresh connection's valid messages are not delivered (15 s)", len(inputs)), map[string]any{"mode": mode})
			}
		}
		big.End()
		c.Add("inputs_through_real_"+proto+"_handler", int64(len(inputs)))
		if d, ok := coll.Stop(30 * time.Second); !ok {
			c.Violation(k, "stop-hang-after-hostile-input:"+proto, fmt.Sprintf("Stop did not return within 30 s (%v) after the hostile inputs", d), nil)
		}
	}
}

func hexes(bs [][]byte) []string {
	out := make([]string, len(bs))
	for i, b := range bs {
		out[i] = fmt.Sprintf("%x", clip(b, 400))
	}
	return out
}

func clip(b []byte, n int) []byte {
	if len(b) > n {
		return b[:n]
	}
	return b
}

func evaluate(c *hx.Ctx, w *hx.Watch, reg *mirror.Registry, k, j int, mode, state string, setup [][]byte, model mirror.Table, in input) {
	dec, err := lib.NewDecoder("tcp", collector.DecodingMode(mode), 0, nil)
	if err != nil {
		panic(err)
	}
	defer dec.Close()
	detail := func() map[string]any {
		return map[string]any{"mode": mode, "state": state, "sub": j, "kind": in.kind, "setup": hexes(setup), "input": fmt.Sprintf("%x", clip(in.b, 2048)), "input_len": len(in.b)}
	}
	w.Begin(k, "setup", nil)
	for _, m := range setup {
		_, _, pv, st := dec.Decode(m)
		if pv != nil {
			w.End()
			c.Violation(k, "panic:setup:"+state, fmt.Sprint(pv), map[string]any{"mode": mode, "setup": hexes(setup), "stack": st})
			return
		}
	}
	w.End()
	// the model's table must be the collector's table
	snap := dec.CP.VerifTemplates()
	// (a template without fields decodes nothing; RFC 7011 8.1 reads it as a withdrawal: held or not is the same to every data set)
	held := map[mirror.Key]bool{}
	for _, ti := range snap {
		held[mirror.Key{Domain: ti.ObsDomainID, TID: ti.TemplateID}] = true
	}
	for mk, l := range model {
		if !held[mk] && len(l.Fields) > 0 && !l.Gray { // (a reduced-size template is one the library does not support: it may refuse it)
			c.Violation(k, "template-table", fmt.Sprintf("after the setup messages the collector holds %d templates and not (%d,%d), the model %d", len(snap), mk.Domain, mk.TID, len(model)), detail())
			return
		}
	}
	for _, ti := range snap {
		l, ok := model[mirror.Key{Domain: ti.ObsDomainID, TID: ti.TemplateID}]
		if !ok || len(l.Fields) != len(ti.Elements) {
			c.Violation(k, "template-table", fmt.Sprintf("collector holds template (%d,%d) with %d fields; model: %v", ti.ObsDomainID, ti.TemplateID, len(ti.Elements), l), detail())
			return
		}
	}
	c.Eval(1)
	w.Begin(k, "decode", detail())
	m, derr, pv, st := dec.Decode(in.b)
	w.End()
	if pv != nil {
		d := detail()
		d["stack"] = st
		c.Violation(k, "panic:decode:"+kindClass(in.kind), fmt.Sprint(pv), d)
		c.Add("outcome_panic", 1)
		return
	}
	out := lib.Summarize(m, derr)
	oc := "error"
	if derr == nil {
		if out.IsTemplate {
			oc = "template"
		} else {
			oc = fmt.Sprintf("data:%d", bucket(len(out.Records)))
		}
	}
	c.Add("outcome_"+oc, 1)
	c.Add("inputs_"+kindClass(in.kind), 1)
	c.Distinct("mode_state_kind_outcome", hx.H64(mode, state, in.kind, oc))
	if len(in.b) >= 20 && in.b[0] == 0 && in.b[1] == 10 {
		c.Nontrivial(hx.H64(mode, state, in.b))
	}
	class, why, gray := mirror.Judge(reg, mode, model, in.b, out)
	if gray {
		c.Add("gray_zone_not_judged_for_exactness", 1)
	}
	if class != "" {
		c.Violation(k, class, why, detail())
	} else if derr == nil && !gray {
		c.Add("messages_judged_exact", 1)
		if !out.IsTemplate {
			c.Add("records_judged_exact", int64(len(out.Records)))
		}
	}
}

func kindClass(k string) string { return k }

func bucket(n int) int {
	switch {
	case n <= 3:
		return n
	case n < 10:
		return 5
	case n < 100:
		return 50
	}
	return 100
}

// C02: everything a real exporting process writes to a raw peer socket is a well-formed
// RFC 7011 message for refipfix (which shares no code with the library), and parses —
// using only the template read from the wire earlier in the same capture — to exactly
// the values handed to SendSet.
package main

import (
	"bytes"
	"fmt"
	"math/rand/v2"
	"os"
	"time"

	"github.com/vmware/go-ipfix/pkg/entities"

	"verif/harness/gen"
	"verif/harness/hx"
	"verif/harness/lib"
	"verif/harness/refipfix"
	"verif/harness/regtable"
)

const wait = 15 * time.Second

func main() {
	c := hx.New("C02")
	defer c.Finish()
	lib.Init()
	total := c.Pick(24000, 480000)
	per := total / c.NBatch
	sessions := map[string]*lib.ExpSession{}
	defer func() {
		for _, s := range sessions {
			s.Close()
		}
	}()
	session := func(proto string, v6 bool) *lib.ExpSession {
		key := fmt.Sprintf("%s/%v", proto, v6)
		if s := sessions[key]; s != nil {
			return s
		}
		s, err := lib.NewExpSession(proto, v6, uint32(0xC0200000)+uint32(c.Batch), 600, 0)
		if err != nil {
			fmt.Println("session:", err)
			c.Finish()
			os.Exit(2)
		}
		sessions[key] = s
		return s
	}
	reuse := entities.NewSet(false)
	templatesWire := map[string]map[uint16][]refipfix.Field{} // per session: templates as parsed from the wire
	from, to := c.Range(per)
	for k := from; k < to; k++ {
		r := c.Rand(k, 0)
		if k%400 == 35 {
			c.Journal(k, map[string]any{"kind": "udp template refresh"})
			refreshCase(c, k, r)
			continue
		}
		proto := []string{"tcp", "udp"}[k%2]
		v6 := (k/2)%2 == 1
		s := session(proto, v6)
		skey := fmt.Sprintf("%s/%v", proto, v6)
		if templatesWire[skey] == nil {
			templatesWire[skey] = map[uint16][]refipfix.Field{}
		}
		nf := 1 + r.IntN(40)
		if r.IntN(8) == 0 {
			nf = 1 + r.IntN(3)
		}
		elems := gen.Template(r, lib.Pool, nf)
		budget := 65535 - 20
		if proto == "udp" {
			budget = 65507 - 20
			if v6 {
				budget = 65527 - 20
			}
		}
		// one case in six aims at the 65535-byte limit itself: a single record whose last
		// variable-length value is sized so that the message is 65500..65560 bytes long. Above the
		// limit SendSet must refuse; whatever it does put on the wire must be well-formed.
		nearLimit := proto == "tcp" && r.IntN(6) == 0
		var nrec int
		switch r.IntN(4) {
		case 0:
			nrec = 1
		case 1:
			nrec = 1 + r.IntN(5)
		case 2:
			nrec = 1 + r.IntN(60)
		default:
			nrec = 100000 // as many as fit
		}
		recs := gen.Records(r, elems, nrec, budget)
		target := 0
		if nearLimit {
			elems = append(gen.Template(r, lib.Pool, r.IntN(4)), lib.CustomElems[8]) // ... , vfString
			rec := [][][]byte{gen.One(r, elems[:len(elems)-1], 2000)}
			fixed := 20
			for j, p := range rec[0] {
				fixed += gen.EncLen(elems[j].Len, p)
			}
			target = 65500 + r.IntN(61)
			str := gen.Bytes(r, target-fixed-3)
			recs = [][][]byte{append(rec[0], str)}
		}
		tid := s.EP.NewTemplateID()
		names := make([]string, len(elems))
		for i, e := range elems {
			names[i] = fmt.Sprintf("%d/%d:%s", e.Ent, e.ID, e.Type)
		}
		desc := map[string]any{"proto": proto, "v6": v6, "tid": tid, "elements": names, "records": len(recs)}
		c.Journal(k, desc)
		tpath := r.IntN(4)
		broken := false
		c.Guard(k, "exporter", desc, func() {
			tset, err := lib.TemplateSet(tid, elems, tpath)
			if err != nil {
				c.Violation(k, "templateset-error", err.Error(), desc)
				return
			}
			tBefore := time.Now().Unix()
			n, err := s.EP.SendSet(tset)
			if err != nil {
				c.Violation(k, "send-template-error", err.Error(), desc)
				return
			}
			raw, ok := s.TakeMsg(n, wait)
			if !ok {
				c.Inconclusive(fmt.Sprintf("case %d: template message did not arrive at the raw peer", k))
				broken = true // a late arrival would be taken for a later case: this session is not used again
				return
			}
			if !checkMessage(c, k, desc, s, raw, n, true, tid, elems, nil, templatesWire[skey], tBefore) {
				return
			}
			if len(recs) == 0 {
				return
			}
			var dset entities.Set
			if r.IntN(2) == 0 {
				reuse.ResetSet()
				dset = reuse
			} else {
				dset = entities.NewSet(false)
			}
			if err := lib.FillDataSet(dset, tid, elems, recs, r); err != nil {
				if target > 65535 {
					// a record that cannot fit any message may just as well be refused when it is added
					c.Add("oversize_refused_when_added", 1)
					return
				}
				c.Violation(k, "dataset-error", err.Error(), desc)
				return
			}
			tBefore = time.Now().Unix()
			n, err = s.EP.SendSet(dset)
			if err != nil {
				if target > 65535 {
					c.Add("oversize_refused", 1)
					return
				}
				if proto == "udp" && dset.GetSetLength()+16 > 9000 {
					// datagram size limits of the kernel are not the library's; SendSet reported the failure
					c.Add("udp_send_refused_by_kernel", 1)
					return
				}
				c.Violation(k, "send-data-error", err.Error(), desc)
				return
			}
			if target > 65535 {
				// accepted although it cannot fit one message: what is on the wire must still be one well-formed message
				raw, _ = s.TakeMsg(n, wait)
				if _, perr := refipfix.ParseMessage(raw); perr != nil || len(raw) > 65535 {
					c.Violation(k, "malformed-near-limit", fmt.Sprintf("a set needing a %d-byte message was accepted and %d bytes were written that are not a well-formed message: %v", target, len(raw), perr), desc)
				} else {
					c.Violation(k, "oversize-accepted", fmt.Sprintf("a set needing a %d-byte message was accepted", target), desc)
				}
				return
			}
			if nearLimit {
				c.Add("near_limit_messages", 1)
			}
			raw, ok = s.TakeMsg(n, wait)
			if !ok {
				c.Inconclusive(fmt.Sprintf("case %d: data message (%d bytes) did not arrive at the raw peer", k, n))
				broken = true
				return
			}
			if checkMessage(c, k, desc, s, raw, n, false, tid, elems, recs, templatesWire[skey], tBefore) {
				c.Nontrivial(hx.H64(raw[20:]))
			}
		})
		if broken || c.NumViolations() > 0 {
			// never reuse a session whose capture position is in doubt
			s.Close()
			delete(sessions, skey)
			delete(templatesWire, skey)
		}
		if k < from+6 {
			c.Sample(6, desc)
		}
	}
}

func checkMessage(c *hx.Ctx, k int, desc any, s *lib.ExpSession, raw []byte, n int, isTemplate bool, tid uint16, elems []regtable.Elem, recs [][][]byte, wire map[uint16][]refipfix.Field, tBefore int64) bool {
	c.Eval(1)
	if n != len(raw) {
		// no property speaks about SendSet's count; "the bytes actually sent" are the captured ones
		c.Add("sendset_count_differs_from_capture", 1)
	}
	if len(raw) > 65535 {
		c.Violation(k, "oversize", fmt.Sprintf("%d-byte message", len(raw)), desc)
		return false
	}
	m, err := refipfix.ParseMessage(raw)
	if err != nil {
		c.Violation(k, "malformed", err.Error(), map[string]any{"case": desc, "head": fmt.Sprintf("%x", raw[:min(len(raw), 64)])})
		return false
	}
	c.Add("messages_parsed", 1)
	c.Add("bytes_parsed", int64(len(raw)))
	if m.Domain != s.Domain {
		c.Violation(k, "domain", fmt.Sprintf("observation domain %d, configured %d", m.Domain, s.Domain), desc)
		return false
	}
	if int64(m.ExportTime) < tBefore || int64(m.ExportTime) > time.Now().Unix() {
		c.Violation(k, "export-time", fmt.Sprintf("export time %d outside [%d,%d]", m.ExportTime, tBefore, time.Now().Unix()), desc)
	}
	if isTemplate {
		if m.SetID != 2 {
			c.Violation(k, "template-setid", fmt.Sprintf("set id %d for a template set", m.SetID), desc)
			return false
		}
		id, fields, rest, err := refipfix.ParseTemplateRecord(m.Body)
		if err != nil {
			c.Violation(k, "template-malformed", err.Error(), desc)
			return false
		}
		if !refipfix.SameBody(rest, nil, 4) { // RFC 7011 3.3.2: zero padding shorter than a record header is allowed
			c.Violation(k, "template-trailing", fmt.Sprintf("%d bytes after the template record that are not set padding", len(rest)), desc)
			return false
		}
		if id != tid || len(fields) != len(elems) {
			c.Violation(k, "template-header", fmt.Sprintf("template (id %d, %d fields) on the wire, (%d, %d) sent", id, len(fields), tid, len(elems)), desc)
			return false
		}
		for i, f := range fields {
			if f != elems[i].Field() {
				c.Violation(k, "template-field", fmt.Sprintf("field %d on the wire %+v, sent %+v", i, f, elems[i].Field()), desc)
				return false
			}
			if f.Ent != 0 {
				c.Add("enterprise_specifiers", 1)
			} else {
				c.Add("iana_specifiers", 1)
			}
		}
		if !refipfix.SameBody(m.Body, refipfix.EncodeTemplateRecord(tid, gen.Fields(elems)), 4) {
			c.Violation(k, "template-bytes", "template message differs from the reference encoding", desc)
			return false
		}
		wire[id] = fields
		for _, f := range fields {
			if f.Ent != 0 {
				c.Nontrivial(hx.H64(raw[20:]))
				break
			}
		}
		return true
	}
	if m.SetID != tid {
		c.Violation(k, "data-setid", fmt.Sprintf("set id %d for data of template %d", m.SetID, tid), desc)
		return false
	}
	fields, ok := wire[m.SetID]
	if !ok {
		c.Violation(k, "data-without-template", fmt.Sprintf("no template %d seen on the wire before this data set", m.SetID), desc)
		return false
	}
	widths := make([]uint16, len(fields))
	for i, f := range fields {
		widths[i] = f.Len
	}
	got, pad, ok, why := refipfix.SplitRecords(m.Body, widths)
	if !ok || !refipfix.SameBody(m.Body[len(m.Body)-pad:], nil, pad+1) {
		// leftover bytes shorter than the shortest record are RFC 7011 3.3.2 padding if they are zero
		c.Violation(k, "data-unparseable", fmt.Sprintf("data set does not parse under the wire template: %s (%d trailing bytes)", why, pad), desc)
		return false
	}
	if pad != 0 {
		c.Add("data_sets_with_padding", 1)
	}
	if len(got) != len(recs) {
		c.Violation(k, "record-count", fmt.Sprintf("%d records on the wire, %d sent", len(got), len(recs)), desc)
		return false
	}
	for i := range got {
		for j := range got[i] {
			if !bytes.Equal(got[i][j], recs[i][j]) {
				c.Violation(k, "value:"+elems[j].Type.String(), fmt.Sprintf("record %d field %d (%s): wire %x, sent %x", i, j, elems[j].Name, got[i][j][:min(24, len(got[i][j]))], recs[i][j][:min(24, len(recs[i][j]))]), desc)
				return false
			}
			c.Add("fields_"+elems[j].Type.String(), 1)
			if widths[j] == refipfix.VarLen {
				if len(got[i][j]) < 255 {
					c.Add("prefix1", 1)
				} else {
					c.Add("prefix3", 1)
				}
			}
		}
	}
	// byte-level: prefix forms and widths exactly as the reference encoder produces them
	var body []byte
	for _, rec := range recs {
		b, err := refipfix.EncodeRecord(widths, rec)
		if err != nil {
			panic(err)
		}
		body = append(body, b...)
	}
	if !refipfix.SameBody(m.Body, body, refipfix.MinRecordLen(widths)) {
		c.Violation(k, "data-bytes", "data message differs from the reference encoding (same values, different bytes: prefix form or width)", desc)
		return false
	}
	c.Add("records_parsed", int64(len(got)))
	return true
}

// refreshCase: the messages the library puts on the wire by itself (UDP template refresh)
// must be as well-formed as the application's: every refresh datagram must parse strictly
// and carry exactly the template record that was sent under that id. Templates mix forward
// IANA elements with their reverse (enterprise 29305) twins and other enterprise elements
// that share element ids.
func refreshCase(c *hx.Ctx, k int, r *rand.Rand) {
	s, err := lib.NewExpSession("udp", r.IntN(2) == 0, uint32(0xC02F0000)+uint32(k), 1, 0)
	if err != nil {
		c.Inconclusive("session: " + err.Error())
		return
	}
	defer s.Close()
	var twins [][2]regtable.Elem
	for _, e := range lib.Pool {
		if e.Ent == 29305 {
			if f, ok := lib.Table.Lookup(0, e.ID); ok && lib.Table.Usable[[2]uint32{0, uint32(e.ID)}] {
				twins = append(twins, [2]regtable.Elem{f, e})
			}
		}
	}
	want := map[uint16][]byte{}
	nt := 2 + r.IntN(4)
	for i := 0; i < nt; i++ {
		var elems []regtable.Elem
		for j := 0; j < 1+r.IntN(3); j++ {
			tw := twins[r.IntN(len(twins))]
			if r.IntN(2) == 0 {
				elems = append(elems, tw[1], tw[0])
			} else {
				elems = append(elems, tw[0], tw[1])
			}
		}
		elems = append(elems, gen.Template(r, lib.Pool, r.IntN(4))...)
		// no element twice in one template
		seen := map[[2]uint32]bool{}
		var uniq []regtable.Elem
		for _, e := range elems {
			kk := [2]uint32{e.Ent, uint32(e.ID)}
			if !seen[kk] {
				seen[kk] = true
				uniq = append(uniq, e)
			}
		}
		tid := s.EP.NewTemplateID()
		set, err := lib.TemplateSet(tid, uniq, r.IntN(4))
		if err != nil {
			c.Violation(k, "templateset-error", err.Error(), nil)
			return
		}
		if _, err := s.EP.SendSet(set); err != nil {
			c.Violation(k, "send-template-error", err.Error(), nil)
			return
		}
		want[tid] = refipfix.EncodeTemplateRecord(tid, gen.Fields(uniq))
	}
	time.Sleep(1300 * time.Millisecond)
	dgs := s.UDP.All()
	for i, dg := range dgs {
		c.Eval(1)
		m, err := refipfix.ParseMessage(dg.Data)
		if err != nil {
			c.Violation(k, "malformed", fmt.Sprintf("datagram %d (refresh=%v): %v", i, i >= nt, err), nil)
			return
		}
		if m.SetID != 2 {
			c.Violation(k, "refresh-not-template", fmt.Sprintf("datagram %d has set id %d", i, m.SetID), nil)
			return
		}
		tid, _, rest, err := refipfix.ParseTemplateRecord(m.Body)
		if err != nil || !refipfix.SameBody(rest, nil, 4) {
			c.Violation(k, "template-malformed", fmt.Sprintf("datagram %d: %v, %d trailing bytes that are not set padding", i, err, len(rest)), nil)
			return
		}
		if w, ok := want[tid]; !ok || !refipfix.SameBody(m.Body, w, 4) {
			cls := "template-bytes"
			if i >= nt {
				cls = "refreshed-template-bytes"
			}
			c.Violation(k, cls, fmt.Sprintf("datagram %d: template %d on the wire is %x, the template sent under that id is %x", i, tid, m.Body, w), nil)
			return
		}
		if i >= nt {
			c.Add("refreshed_templates_verified", 1)
			c.Nontrivial(hx.H64("refresh", k, i, m.Body))
		}
	}
	c.Add("refresh_cases", 1)
}

// C20: the standalone collector keeps a bounded, ordered window of rendered records.
//
// cmd/collector is package main and cannot be imported: a driver test file
// (/verif/overlay/c20_driver_test.go) is injected into the package with `go test -overlay`
// and acts as a recorder — it runs histories of {message arrival, GET /records with any
// count/format, POST /reset, invalid requests} against addIPFIXMessage and the two HTTP
// handlers and writes an event log. This binary runs the driver as a child process and
// checks the log offline against the sliding-window model (cap 4096) through the unique
// sequence number every message carries and its rendered entry prints.
package main

import (
	"bufio"
	"encoding/base64"
	"encoding/hex"
	"encoding/json"
	"fmt"
	"net/url"
	"os"
	"os/exec"
	"path/filepath"
	"regexp"
	"strconv"
	"strings"

	"verif/harness/hx"
)

const capEntries = 4096

type event struct {
	Ev      string        `json:"ev"`
	Hist    int           `json:"hist"`
	ID      uint32        `json:"id"`
	Kind    string        `json:"kind"`
	Records [][][3]string `json:"records"`
	TFields [][3]string   `json:"tfields"`
	Method  string        `json:"method"`
	URL     string        `json:"url"`
	Code    int           `json:"code"`
	Body    string        `json:"body"`
	CType   string        `json:"ctype"`
	Started int64         `json:"started"`
	Done    int64         `json:"done"`
	Conc    bool          `json:"conc"`
}

var reSeq = regexp.MustCompile(`(?i)\bseq\w*[ .]*(?:no\.?|number|num|#)?[ .]*[:=][ \t]*(\d+)`)
var reCache = map[string]*regexp.Regexp{}
var reAnnot = regexp.MustCompile(`^(.*?)[ \t]+[(\[][^()\[\]]*[)\]]$`)
var reMarker = regexp.MustCompile(`vfid-(\d+)-`)
var separator = strings.Repeat("=", 80)

func entries(ev event, format string) ([]string, error) {
	if format == "text" {
		if ev.Body == "" {
			return nil, nil
		}
		parts := splitText(ev.Body)
		// every entry is closed by the separator; text after the last one is an entry only if it looks like
		// one (it names a message), otherwise it is a footer and no concern of the property
		if last := parts[len(parts)-1]; reMarker.MatchString(last) || reSeq.MatchString(last) {
			return nil, fmt.Errorf("text response does not end with the separator")
		}
		return parts[:len(parts)-1], nil
	}
	var js struct {
		FlowRecords []string `json:"flowRecords"`
	}
	if err := json.Unmarshal([]byte(ev.Body), &js); err != nil {
		return nil, fmt.Errorf("json response does not parse: %v", err)
	}
	return js.FlowRecords, nil
}

// splitText cuts a text response at its separator lines: a line of at least 20 identical punctuation
// characters (the current one is 80 '='; which character and how many is the renderer's choice).
func splitText(body string) []string {
	var parts []string
	var cur []string
	for _, ln := range strings.SplitAfter(body, "\n") {
		t := strings.TrimRight(ln, "\r\n")
		sep := len(t) >= 20 && strings.ContainsRune("=-_*#~+", rune(t[0])) && strings.Count(t, t[:1]) == len(t)
		if !sep {
			// the separator may also directly follow the entry's last line without a newline in between
			if i := strings.Index(t, separator); i >= 0 && t[i:] == separator {
				cur = append(cur, t[:i])
				sep = true
			}
		}
		if sep {
			parts = append(parts, strings.Join(cur, ""))
			cur = nil
			continue
		}
		cur = append(cur, ln)
	}
	return append(parts, strings.Join(cur, ""))
}

func octetRenderings(hx string) []string {
	b, _ := hex.DecodeString(hx)
	dec := make([]string, len(b))
	for i, x := range b {
		dec[i] = strconv.Itoa(int(x))
	}
	return []string{"[" + strings.Join(dec, " ") + "]", hx, strings.ToUpper(hx), "0x" + hx, "0x" + strings.ToUpper(hx), base64.StdEncoding.EncodeToString(b), string(b)}
}

// checkEntry verifies that the rendered entry shows every field of every record by name and value.
func checkEntry(entry string, a event) string {
	if a.Kind == "template" {
		for _, f := range a.TFields {
			key := "T/" + f[0] + "/" + f[1] + "/" + f[2]
			re := reCache[key]
			if re == nil {
				// a template record's fields have names and no values: the name must be shown
				re = regexp.MustCompile(`(?m)(?:^|[\s,;{\[(])` + regexp.QuoteMeta(f[0]) + `(?:$|[\s,;:=}\])])`)
				reCache[key] = re
			}
			if !re.MatchString(entry) {
				return fmt.Sprintf("template field %q is not shown by name", f[0])
			}
		}
		return ""
	}
	// every field of every record must be shown, by name and value, somewhere in the entry (values are
	// PRNG-drawn per record, so a record that is not rendered leaves its values unmatched)
	for i, rec := range a.Records {
		for _, f := range rec {
			if why := fieldShown(entry, f[0], f[1], f[2]); why != "" {
				return fmt.Sprintf("record %d: %s", i, why)
			}
		}
	}
	return ""
}

// fieldShown looks for a line "<name> : <value>" (any indentation, ':' or '=' as separator) whose value is
// a faithful rendering of the field: the property promises name and value, not a format.
func fieldShown(sec, name, want, kind string) string {
	re := reCache[name]
	if re == nil {
		// "<name> : <value>" at the start of a line or after a delimiter (several pairs may share a line)
		re = regexp.MustCompile(`(?m)(?:^|[\s,;{\[(])` + regexp.QuoteMeta(name) + `[ \t]*[:=][ \t]*(.*?)[ \t]*$`)
		reCache[name] = re
	}
	ms := re.FindAllStringSubmatch(sec, -1)
	if len(ms) == 0 {
		return fmt.Sprintf("field %q is not shown by name", name)
	}
	var cands []string
	add := func(v string) {
		cands = append(cands, v)
		// a rendering may annotate the value ("1600000000 (2020-09-13T12:26:40Z)"): the value is still shown
		if am := reAnnot.FindStringSubmatch(v); am != nil {
			cands = append(cands, am[1])
		}
	}
	// every occurrence of "<name> :" counts, also several on one line (a record may carry an element more than once and
	// a rendering may put a record on one line): the value runs to the end of the line or to one of the delimiters
	reS := reCache[name+"\x00start"]
	if reS == nil {
		reS = regexp.MustCompile(`(?m)(?:^|[\s,;{\[(])` + regexp.QuoteMeta(name) + `[ \t]*[:=][ \t]*`)
		reCache[name+"\x00start"] = reS
	}
	for _, loc := range reS.FindAllStringIndex(sec, -1) {
		v := sec[loc[1]:]
		if nl := strings.IndexByte(v, '\n'); nl >= 0 {
			v = v[:nl]
		}
		v = strings.TrimRight(v, " \t\r")
		add(v)
		for i, ch := range v {
			if ch == ',' || ch == ';' {
				add(strings.TrimRight(v[:i], " \t"))
			}
		}
	}
	for _, got := range cands {
		switch kind {
		case "octets":
			for _, rd := range octetRenderings(want[7:]) {
				if got == rd {
					return ""
				}
			}
		case "int":
			if got == want {
				return ""
			}
			if a, err := strconv.ParseInt(got, 0, 64); err == nil {
				if b, err2 := strconv.ParseInt(want, 10, 64); err2 == nil && a == b {
					return ""
				}
			}
			if a, err := strconv.ParseUint(got, 0, 64); err == nil {
				if b, err2 := strconv.ParseUint(want, 10, 64); err2 == nil && a == b {
					return ""
				}
			}
		case "float":
			a, err1 := strconv.ParseFloat(got, 64)
			b, err2 := strconv.ParseFloat(want, 64)
			if err1 == nil && err2 == nil && a == b {
				return ""
			}
		case "bool":
			if got == want || (want == "true" && got == "1") || (want == "false" && (got == "0" || got == "2")) {
				return ""
			}
		case "mac":
			if strings.EqualFold(got, want) || strings.EqualFold(strings.ReplaceAll(got, "-", ":"), want) || strings.EqualFold(got, strings.ReplaceAll(want, ":", "")) {
				return ""
			}
		default: // str, ip
			if got == want || got == strconv.Quote(want) {
				return ""
			}
		}
	}
	if kind == "octets" {
		return fmt.Sprintf("octetArray field %q is not shown with its value (bytes %s); the entry shows %q", name, want[7:], ms[0][1])
	}
	return fmt.Sprintf("field %q is shown as %q, its value is %q", name, ms[0][1], want)
}

func main() {
	c := hx.New("C20")
	defer c.Finish()
	driver := os.Getenv("VERIF_C20_DRIVER")
	if driver == "" {
		fmt.Println("VERIF_C20_DRIVER not set")
		os.Exit(2)
	}
	total := c.Pick(40, 4000)
	per := total / c.NBatch
	from, to := c.Range(per)
	if from >= to {
		return
	}
	logPath := filepath.Join(c.Out, fmt.Sprintf("c20_events.%d.jsonl", from))
	c.Journal(from, map[string]any{"histories": []int{c.Batch*per + from, c.Batch*per + to}})
	cmd := exec.Command(driver, "-test.run", "^TestVerifC20Driver$", "-test.count=1", "-test.timeout=0")
	cmd.Env = append(os.Environ(), "VERIF_C20_LOG="+logPath, fmt.Sprintf("VERIF_C20_FROM=%d", c.Batch*per+from), fmt.Sprintf("VERIF_C20_N=%d", to-from), "VERIF_C20_LONG_EVERY=13")
	outb, err := cmd.CombinedOutput()
	if err != nil {
		s := string(outb)
		if len(s) > 6000 {
			s = s[:2000] + "\n...\n" + s[len(s)-4000:]
		}
		c.Violation(from, "driver-crash", fmt.Sprintf("the in-package driver died: %v", err), s)
		return
	}
	f, err := os.Open(logPath)
	if err != nil {
		c.Inconclusive("no event log: " + err.Error())
		return
	}
	defer f.Close()
	defer os.Remove(logPath)
	sc := bufio.NewScanner(f)
	sc.Buffer(make([]byte, 1<<20), 256<<20)
	var window []uint32
	arr := map[uint32]event{}
	cur := -1
	exceeded, resetBetween, queriesSinceReset := false, false, 0
	histHash := uint64(0)
	var sample []string
	finish := func() {
		if cur < 0 {
			return
		}
		c.Eval(1)
		if exceeded || resetBetween {
			c.Nontrivial(histHash)
		}
		if exceeded {
			c.Add("histories_exceeding_the_cap", 1)
		}
		if len(sample) > 0 {
			c.Sample(6, map[string]any{"history": cur, "first_ops": sample})
		}
	}
	fail := func(k int, class, why string, ev event) {
		b := ev.Body
		if len(b) > 1500 {
			b = b[:1500] + "..."
		}
		c.Violation(k, class, why, map[string]any{"history": ev.Hist, "request": ev.Method + " " + ev.URL, "code": ev.Code, "body": b})
	}
	for sc.Scan() {
		var ev event
		if err := json.Unmarshal(sc.Bytes(), &ev); err != nil {
			c.Inconclusive("unreadable event: " + err.Error())
			return
		}
		switch ev.Ev {
		case "history":
			finish()
			cur = ev.Hist
			window = nil
			arr = map[uint32]event{}
			exceeded, resetBetween, queriesSinceReset = false, false, 0
			histHash = hx.H64("hist", ev.Hist, c.Seed)
			sample = nil
			continue
		case "arrive":
			arr[ev.ID] = ev
			c.Add("arrivals", 1)
			if !ev.Conc {
				window = append(window, ev.ID)
				if len(window) > capEntries {
					window = window[1:]
					exceeded = true
				}
			}
			histHash = hx.H64(histHash, "a", ev.Kind, len(ev.Records))
			if len(sample) < 8 {
				sample = append(sample, "arrive "+ev.Kind+" id="+strconv.Itoa(int(ev.ID)))
			}
			continue
		case "badreq":
			c.Add("invalid_requests", 1)
			if ev.Code < 400 || ev.Code > 499 {
				fail(cur, "invalid-request-accepted", fmt.Sprintf("%s %s was answered %d", ev.Method, ev.URL, ev.Code), ev)
			}
			histHash = hx.H64(histHash, "b", ev.URL)
			continue
		}
		// req
		if len(sample) < 8 {
			sample = append(sample, ev.Method+" "+ev.URL)
		}
		histHash = hx.H64(histHash, "r", ev.URL)
		if strings.HasPrefix(ev.URL, "/reset") {
			if ev.Code < 200 || ev.Code > 299 {
				fail(cur, "reset-refused", fmt.Sprintf("POST /reset answered %d", ev.Code), ev)
			}
			window = nil
			if queriesSinceReset > 0 {
				resetBetween = true
			}
			queriesSinceReset = 0
			c.Add("resets", 1)
			continue
		}
		queriesSinceReset++
		c.Add("queries", 1)
		u, _ := url.Parse(ev.URL)
		q := u.Query()
		format := q.Get("format")
		if format == "" {
			format = "json"
		}
		n := -1
		if cs := q.Get("count"); cs != "" {
			n, _ = strconv.Atoi(cs)
		}
		if ev.Code < 200 || ev.Code > 299 {
			fail(cur, "valid-query-refused", fmt.Sprintf("%s answered %d", ev.URL, ev.Code), ev)
			continue
		}
		wantCT := map[string]string{"json": "application/json", "text": "text/plain"}[format]
		if !strings.HasPrefix(ev.CType, wantCT) {
			fail(cur, "content-type", fmt.Sprintf("%s answered with content type %q", ev.URL, ev.CType), ev)
		}
		ents, err := entries(ev, format)
		if err != nil {
			fail(cur, "response-format", err.Error(), ev)
			continue
		}
		// Which message is an entry? Data messages carry their id in a value (the marker field), which the
		// property obliges the entry to show. A template message has no values: it is recognised by the
		// sequence number of a header line if the rendering has one, and otherwise by its position (the
		// window the model expects, or its identified neighbours in a concurrent query) - the check of its
		// field names below then confirms or refutes the guess.
		want := window
		if n >= 0 && n < len(window) {
			want = window[len(window)-n:]
		}
		ids := make([]uint32, len(ents))
		known := make([]bool, len(ents))
		for i, e := range ents {
			m := reMarker.FindStringSubmatch(e)
			if m == nil {
				m = reSeq.FindStringSubmatch(e)
			}
			if m != nil {
				id, _ := strconv.ParseUint(m[1], 10, 32)
				ids[i], known[i] = uint32(id), true
			}
		}
		bad := false
		for i := range ents {
			if known[i] {
				continue
			}
			c.Add("entries_identified_by_position", 1)
			if !ev.Conc {
				if len(ents) != len(want) {
					break // reported as window-size below
				}
				ids[i] = want[i]
				continue
			}
			for d := 1; d < len(ents) && ids[i] == 0; d++ {
				if i-d >= 0 && known[i-d] {
					ids[i] = ids[i-d] + uint32(d)
				} else if i+d < len(ents) && known[i+d] && ids[i+d] > uint32(d) {
					ids[i] = ids[i+d] - uint32(d)
				}
			}
		}
		if !ev.Conc && len(ents) != len(want) {
			fail(cur, "window-size", fmt.Sprintf("%s returned %d entries; the last min(n, stored) is %d (stored %d)", ev.URL, len(ents), len(want), len(window)), ev)
			continue
		}
		for i, e := range ents {
			id := ids[i]
			if id == 0 {
				continue // a concurrent response without any identifiable entry: nothing to anchor on
			}
			a, ok := arr[id]
			if !ok {
				if ev.Conc {
					continue // the writer logs an arrival after it completed; a reader may see it earlier
				}
				fail(cur, "entry-never-arrived", fmt.Sprintf("the response holds an entry for message %d, which did not arrive in this history", id), ev)
				bad = true
				break
			}
			if !known[i] && a.Kind != "template" {
				fail(cur, "entry-without-id", fmt.Sprintf("entry %d shows no message id in any value, and the message expected at its position (%d) is a data message, whose values include its id", i, id), ev)
				bad = true
				break
			}
			if why := checkEntry(e, a); why != "" {
				cls := "entry-rendering"
				if strings.Contains(why, "octetArray") {
					cls = "entry-rendering-octetarray"
				}
				fail(cur, cls, fmt.Sprintf("message %d: %s", id, why), ev)
				bad = true
				break
			}
			c.Add("entries_checked", 1)
		}
		if bad {
			continue
		}
		if len(ids) > capEntries {
			fail(cur, "cap-exceeded", fmt.Sprintf("%d entries returned; the cap is %d", len(ids), capEntries), ev)
			continue
		}
		if ev.Conc {
			if len(ids) > 0 && ids[0] == 0 {
				c.Add("concurrent_responses_without_identifiable_entry", 1)
				continue
			}
			for i := 1; i < len(ids); i++ {
				if ids[i] != ids[i-1]+1 {
					fail(cur, "window-not-contiguous", fmt.Sprintf("concurrent query: entry ids %d then %d", ids[i-1], ids[i]), ev)
					break
				}
			}
			if n >= 0 && len(ids) > n {
				fail(cur, "too-many-entries", fmt.Sprintf("%d entries for count=%d", len(ids), n), ev)
			}
			if len(ids) > 0 && int64(ids[len(ids)-1]) > ev.Started {
				fail(cur, "entry-from-the-future", fmt.Sprintf("entry %d returned; only %d arrivals had started when the request returned", ids[len(ids)-1], ev.Started), ev)
			}
			c.Add("concurrent_queries", 1)
			continue
		}
		for i := range ids {
			if ids[i] != want[i] {
				fail(cur, "window-content", fmt.Sprintf("%s: entry %d is message %d, expected message %d (most recent messages in arrival order)", ev.URL, i, ids[i], want[i]), ev)
				break
			}
		}
	}
	finish()
}

// C06: flow expiry — callbacks fire exactly at deadlines and no flow is ever stranded.
//
// Virtual time: timeouts are 100 and 60 minutes, the quantum is one minute, "advance by d"
// is the VerifShiftDeadlines hook; a history runs in microseconds of real time, so the
// code's real-time comparisons and the model's virtual-minute comparisons agree. A case is
// a history over {Rec(k), Adv(A/2|A|I|A+I), Scan(fail on a chosen set of keys)}. After
// EVERY operation the flow map and the expiry heap (VerifSnapshot hook) are checked for
// agreement with each other and with the deadline model, and every scan's callback
// sequence is compared with the model's.
package main

import (
	"errors"
	"fmt"
	"math"
	"math/rand/v2"
	"sort"
	"strings"
	"time"

	"github.com/vmware/go-ipfix/pkg/intermediate"

	"verif/harness/agg"
	"verif/harness/hx"
	"verif/harness/lib"
)

const (
	A = 100 // active timeout, minutes
	I = 60  // inactive timeout, minutes
)

type op struct {
	kind string // R A S
	key  int
	d    int  // minutes
	fail uint // bitset of keys whose callback fails
}

func (o op) String() string {
	switch o.kind {
	case "R":
		return fmt.Sprintf("Rec%d", o.key)
	case "A":
		return fmt.Sprintf("Adv%d", o.d)
	}
	return fmt.Sprintf("Scan(fail=%b)", o.fail)
}

type mflow struct {
	held     bool
	active   int
	inactive int
	// rearmed: the flow was just exported on active expiry. The statement says the active deadline is re-armed,
	// not to which instant: now + timeout, or the next point of a fixed grid (creation + k * timeout) are both
	// re-armings. The model takes over what it reads back if it lies in (now, now + timeout].
	rearmed bool
}

func minI(a, b int) int {
	if a < b {
		return a
	}
	return b
}

type world struct {
	c     *hx.Ctx
	k     int
	ap    *intermediate.AggregationProcess
	keys  []agg.Key
	m     []mflow
	now   int
	word  []string
	ends  []uint32
	stats struct{ scansWithCallbacks, failed, ties int }
}

func (w *world) fail(class, why string) bool {
	w.c.Violation(w.k, class, why, map[string]any{"history": strings.Join(w.word, " "), "active_min": A, "inactive_min": I})
	return false
}

func (w *world) keyIndex(fk intermediate.FlowKey) int {
	for i, k := range w.keys {
		if k.FlowKey() == fk {
			return i
		}
	}
	return -1
}

// invariants: map and heap agree with each other and with the model.
func (w *world) invariants(after string, adopt bool) bool {
	flows, heap, snapNow := w.ap.VerifSnapshot()
	toV := func(t time.Time) int { return w.now + int(math.Round(t.Sub(snapNow).Minutes())) }
	inHeap := map[int]int{}
	for _, h := range heap {
		if !h.HasKey {
			return w.fail("heap-entry-without-key", fmt.Sprintf("after %s: heap slot %d has no flow key", after, h.Pos))
		}
		ki := w.keyIndex(h.Key)
		if ki < 0 {
			return w.fail("heap-entry-unknown-key", fmt.Sprintf("after %s: heap slot %d refers to an unknown key", after, h.Pos))
		}
		if _, dup := inHeap[ki]; dup {
			return w.fail("heap-duplicate", fmt.Sprintf("after %s: key %d is scheduled twice", after, ki))
		}
		inHeap[ki] = h.Pos
		if h.Index != h.Pos {
			return w.fail("heap-index", fmt.Sprintf("after %s: item at heap position %d records index %d", after, h.Pos, h.Index))
		}
		if h.Pos > 0 {
			p := heap[(h.Pos-1)/2]
			pm, cm := p.Active, h.Active
			if p.Inactive.Before(pm) {
				pm = p.Inactive
			}
			if h.Inactive.Before(cm) {
				cm = h.Inactive
			}
			if cm.Before(pm) {
				return w.fail("heap-order", fmt.Sprintf("after %s: heap order violated between positions %d and %d", after, (h.Pos-1)/2, h.Pos))
			}
		}
	}
	held := map[int]bool{}
	for _, f := range flows {
		ki := w.keyIndex(f.Key)
		if ki < 0 {
			return w.fail("unknown-flow", "flow map holds an unknown key")
		}
		held[ki] = true
		pos, sched := inHeap[ki]
		if !f.HasItem || !sched {
			return w.fail("held-flow-not-scheduled", fmt.Sprintf("after %s: flow %d is held but has no entry in the expiry queue: it will never expire or be exported again", after, ki))
		}
		if f.ItemIndex != pos || !f.ItemRefersBack || f.ItemKey != f.Key {
			return w.fail("item-link", fmt.Sprintf("after %s: flow %d's queue item (index %d, refers back %v) is not the entry at heap position %d", after, ki, f.ItemIndex, f.ItemRefersBack, pos))
		}
		if !w.m[ki].held {
			return w.fail("flow-should-be-gone", fmt.Sprintf("after %s: flow %d is still held; the model removed it (inactive expiry)", after, ki))
		}
		av, iv := toV(f.Active), toV(f.Inactive)
		if w.m[ki].rearmed {
			w.m[ki].rearmed = false
			if av > w.now && av <= w.now+A {
				w.m[ki].active = av
			}
		}
		if adopt {
			w.m[ki].active, w.m[ki].inactive = av, iv
		} else if av != w.m[ki].active || iv != w.m[ki].inactive {
			return w.fail("deadline", fmt.Sprintf("after %s: flow %d has deadlines (active %d, inactive %d) min, model (%d, %d), now %d", after, ki, av, iv, w.m[ki].active, w.m[ki].inactive, w.now))
		}
	}
	for ki := range inHeap {
		if !held[ki] {
			return w.fail("scheduled-entry-without-flow", fmt.Sprintf("after %s: the expiry queue holds an entry for flow %d, which is not held", after, ki))
		}
	}
	for ki, mf := range w.m {
		if mf.held && !held[ki] {
			return w.fail("flow-lost", fmt.Sprintf("after %s: flow %d disappeared; the model still holds it", after, ki))
		}
	}
	// advertised time to next expiry: against the earliest deadline of the queue as just read (the model has been
	// compared with those deadlines above, to the minute); what may differ is only the real time that passed
	// between the snapshot and this call - measured, not assumed (a loaded machine may take seconds)
	got := w.ap.GetExpiryFromExpirePriorityQueue()
	after2 := time.Now()
	var want time.Duration
	if len(heap) == 0 {
		want = time.Duration(minI(A, I)) * time.Minute
	} else {
		earliestT := heap[0].Active
		for _, h := range heap {
			for _, t := range []time.Time{h.Active, h.Inactive} {
				if t.Before(earliestT) {
					earliestT = t
				}
			}
		}
		want = intermediate.MinExpiryTime
		if rem := earliestT.Sub(after2); rem > 0 {
			want += rem
		}
	}
	tol := 500*time.Millisecond + after2.Sub(snapNow)
	if d := got - want; d > tol || d < -tol {
		return w.fail("advertised-expiry", fmt.Sprintf("after %s: GetExpiryFromExpirePriorityQueue() = %v, expected %v +- %v (earliest deadline of the queue, now %d)", after, got, want, tol, w.now))
	}
	w.c.Add("invariant_checks", 1)
	return true
}

func (w *world) step(o op) bool {
	w.word = append(w.word, o.String())
	switch o.kind {
	case "R":
		// every third operation of a history, the record travels in one message together with a record of the
		// next key: records of different flows in one message are independent arrivals
		ks := []int{o.key}
		if len(w.word)%3 == 0 && len(w.keys) > 1 {
			ks = append(ks, (o.key+1)%len(w.keys))
			w.c.Add("messages_with_records_of_two_flows", 1)
		}
		var recs []agg.Rec
		for _, ki := range ks {
			w.ends[ki] += 10
			recs = append(recs, agg.Rec{Key: w.keys[ki], Node: 'B', FlowType: 1, Start: 1000, End: w.ends[ki], EndReason: 2, TCPState: "ESTABLISHED",
				Str: map[string]string{"sourcePodName": "a", "destinationPodName": "b"}})
		}
		if err := w.ap.AggregateMsgByFlowKey(agg.Message(recs...)); err != nil {
			return w.fail("aggregate-error", err.Error())
		}
		for _, ki := range ks {
			if !w.m[ki].held {
				w.m[ki] = mflow{held: true, active: w.now + A, inactive: w.now + I}
			} else {
				w.m[ki].inactive = w.now + I
			}
		}
	case "A":
		w.ap.VerifShiftDeadlines(time.Duration(o.d) * time.Minute)
		w.now += o.d
	case "S":
		// expected callback sequence
		type exp struct{ key, dl int }
		var due []exp
		for ki, mf := range w.m {
			if mf.held && minI(mf.active, mf.inactive) <= w.now {
				due = append(due, exp{ki, minI(mf.active, mf.inactive)})
			}
		}
		sort.Slice(due, func(i, j int) bool { return due[i].dl < due[j].dl })
		var got []int
		err := w.ap.ForAllExpiredFlowRecordsDo(func(fk intermediate.FlowKey, rec *intermediate.AggregationFlowRecord) error {
			ki := w.keyIndex(fk)
			got = append(got, ki)
			if ki >= 0 && o.fail&(1<<uint(ki)) != 0 {
				return errors.New("injected export failure")
			}
			return nil
		})
		// every callback must be for a due flow (ties may reorder). Whether a scan stops at the first failing
		// callback or goes on with the remaining due flows is not the property's business: both are accepted.
		var want []exp
		failedKeys := map[int]bool{}
		for _, ki := range got {
			if ki < 0 {
				return w.fail("callback-unknown-flow", "callback for an unknown flow")
			}
			mf := w.m[ki]
			if !mf.held || minI(mf.active, mf.inactive) > w.now {
				return w.fail("callback-before-deadline", fmt.Sprintf("flow %d was handed to the callback at minute %d; its deadlines are (active %d, inactive %d)", ki, w.now, mf.active, mf.inactive))
			}
			want = append(want, exp{ki, minI(mf.active, mf.inactive)})
			if o.fail&(1<<uint(ki)) != 0 {
				failedKeys[ki] = true
			}
		}
		seen := map[int]bool{}
		for i, ki := range got {
			if seen[ki] {
				return w.fail("callback-twice", fmt.Sprintf("flow %d handed to the callback twice in one scan", ki))
			}
			seen[ki] = true
			if i > 0 && want[i].dl < want[i-1].dl {
				return w.fail("callback-order", fmt.Sprintf("callbacks not in ascending deadline order: flow %d (deadline %d) after flow %d (deadline %d)", ki, want[i].dl, got[i-1], want[i-1].dl))
			}
			if i > 0 && want[i].dl == want[i-1].dl {
				w.stats.ties++
			}
		}
		if len(failedKeys) == 0 {
			if err != nil {
				return w.fail("scan-error", fmt.Sprintf("scan returned an error although no callback failed: %v", err))
			}
			if len(got) != len(due) {
				return w.fail("deadline-passed-no-callback", fmt.Sprintf("%d flows have a passed deadline at minute %d, %d callbacks were made (%v)", len(due), w.now, len(got), got))
			}
		} else {
			if err == nil {
				return w.fail("callback-error-swallowed", "a callback failed but the scan returned nil")
			}
			// everything handed over must be among the earliest due entries
			if len(got) > len(due) {
				return w.fail("callback-before-deadline", "more callbacks than due flows")
			}
			w.stats.failed++
		}
		if len(got) > 0 {
			w.stats.scansWithCallbacks++
		}
		// model effects of the successful callbacks
		for _, ki := range got {
			if failedKeys[ki] {
				continue
			}
			mf := &w.m[ki]
			if mf.inactive <= w.now {
				*mf = mflow{}
			} else {
				mf.active = w.now + A
				mf.rearmed = true
			}
		}
		if len(failedKeys) > 0 {
			// the statement fixes only the invariants for a failed flow: it must still be held
			// and scheduled; the model adopts the deadlines it reads back
			if len(got) > 1 && failedKeys[got[0]] {
				w.c.Add("scans_continued_after_a_failed_callback", 1)
			}
			if !w.invariants(o.String(), true) {
				return false
			}
			return true
		}
		// after a scan that returned nil no deadline may be overdue
		for ki, mf := range w.m {
			if mf.held && minI(mf.active, mf.inactive) <= w.now {
				return w.fail("overdue-after-scan", fmt.Sprintf("flow %d is still overdue after a successful scan", ki))
			}
		}
	}
	return w.invariants(o.String(), false)
}

func run(c *hx.Ctx, k int, keys []agg.Key, ops []op) (nontrivial bool) {
	ap := agg.NewProcess(A*time.Minute, I*time.Minute, 1, nil)
	w := &world{c: c, k: k, ap: ap, keys: keys, m: make([]mflow, len(keys)), ends: make([]uint32, len(keys))}
	for i := range w.ends {
		w.ends[i] = 2000
	}
	for _, o := range ops {
		if !w.step(o) {
			return false
		}
	}
	c.Add("scans_with_callbacks", int64(w.stats.scansWithCallbacks))
	c.Add("failed_callbacks_injected", int64(w.stats.failed))
	c.Add("tie_groups_seen", int64(w.stats.ties))
	st := ""
	for _, mf := range w.m {
		st += fmt.Sprintf("%v/%d/%d;", mf.held, mf.active-w.now, mf.inactive-w.now)
	}
	c.Distinct("final_model_states", hx.H64(st))
	return w.stats.scansWithCallbacks > 0
}

func main() {
	c := hx.New("C06")
	defer c.Finish()
	lib.Init()
	alpha := func(nk int) []op {
		var a []op
		for ki := 0; ki < nk; ki++ {
			a = append(a, op{kind: "R", key: ki})
		}
		for _, d := range []int{A / 2, A, I, A + I} {
			a = append(a, op{kind: "A", d: d})
		}
		for f := uint(0); f < 1<<uint(nk); f++ {
			if nk == 3 && f != 0 && f != 1 && f != 2 && f != 4 && f != 7 {
				continue
			}
			a = append(a, op{kind: "S", fail: f})
		}
		return a
	}
	type space struct {
		nk, depth int
		alpha     []op
		n         int
	}
	pow := func(b, e int) int {
		n := 1
		for i := 0; i < e; i++ {
			n *= b
		}
		return n
	}
	var spaces []space
	a2, a3 := alpha(2), alpha(3)
	if c.Thorough() {
		spaces = []space{{2, 6, a2, pow(len(a2), 6)}, {3, 5, a3, pow(len(a3), 5)}}
	} else {
		spaces = []space{{2, 5, a2, pow(len(a2), 5)}}
	}
	nEx := 0
	for _, s := range spaces {
		nEx += s.n
	}
	nRand := c.Pick(100000, 3000000)
	c.Note("exhaustive_part", fmt.Sprintf("all words: %v; plus %d random histories of length <= 60 over 8 keys", func() []string {
		var o []string
		for _, s := range spaces {
			o = append(o, fmt.Sprintf("%d keys, %d symbols, depth %d = %d histories", s.nk, len(s.alpha), s.depth, s.n))
		}
		return o
	}(), nRand))
	from, to := c.Range(nEx + nRand)
	for k := from; k < to; k++ {
		if k%c.NBatch != c.Batch {
			continue
		}
		var ops []op
		keys := agg.Keys[:8]
		if k < nEx {
			x := k
			var sp space
			for _, s := range spaces {
				if x < s.n {
					sp = s
					break
				}
				x -= s.n
			}
			keys = agg.Keys[:sp.nk]
			for i := 0; i < sp.depth; i++ {
				ops = append(ops, sp.alpha[x%len(sp.alpha)])
				x /= len(sp.alpha)
			}
			c.Add("exhaustive_histories", 1)
		} else {
			r := c.Rand(k, 0)
			n := 5 + r.IntN(56)
			for i := 0; i < n; i++ {
				switch x := r.IntN(10); {
				case x < 5:
					ops = append(ops, op{kind: "R", key: r.IntN(8)})
				case x < 8:
					ops = append(ops, op{kind: "A", d: []int{1, A / 2, A, I, A + I, I - 1, A - I, 7}[r.IntN(8)]})
				default:
					f := uint(0)
					if r.IntN(2) == 0 {
						f = uint(r.IntN(256))
					}
					ops = append(ops, op{kind: "S", fail: f})
				}
			}
			c.Add("random_histories", 1)
		}
		c.Journal(k, fmt.Sprint(ops))
		c.Eval(1)
		if run(c, k, keys, ops) {
			c.Nontrivial(hx.H64(fmt.Sprint(ops)))
		}
		if c.NumViolations() > 50 {
			break
		}
		if (k/c.NBatch)%10000 == 0 {
			c.Sample(8, fmt.Sprint(ops))
		}
	}
}

var _ = rand.Int

// C01: end-to-end fidelity — what a real exporting process is given is what a real
// collecting process connected to it delivers, over tcp, udp, tls and dtls, IPv4 and IPv6.
//
// One (collector, exporter) session per transport configuration is reused for many cases;
// a case is one template (fresh template id) + one data set. The harness keeps the values
// it generated and compares them, bit for bit, with what arrives on GetMsgChan().
package main

import (
	"bytes"
	"fmt"
	"math/rand/v2"
	"os"
	"time"

	"github.com/vmware/go-ipfix/pkg/collector"
	"github.com/vmware/go-ipfix/pkg/entities"
	"github.com/vmware/go-ipfix/pkg/exporter"

	"verif/harness/certs"
	"verif/harness/gen"
	"verif/harness/hx"
	"verif/harness/lib"
	"verif/harness/refipfix"
	"verif/harness/regtable"
)

type config struct {
	name  string
	proto string
	enc   bool
	v6    bool
}

var configs = []config{
	{"tcp4", "tcp", false, false}, {"udp4", "udp", false, false}, {"tls4", "tcp", true, false}, {"dtls4", "udp", true, false},
	{"tcp6", "tcp", false, true}, {"udp6", "udp", false, true}, {"tls6", "tcp", true, true}, {"dtls6", "udp", true, true},
}

type session struct {
	cfg    config
	coll   *lib.Coll
	ep     *exporter.ExportingProcess
	domain uint32
	seen   int // deliveries consumed
	// template ids of earlier cases of this session (datagram transports: late arrivals are recognised by them)
	retired map[uint16]bool
}

var (
	ca     *certs.Pair
	server *certs.Pair
	client *certs.Pair
)

func newSession(cfg config, domain uint32) (*session, error) {
	host := "127.0.0.1:0"
	if cfg.v6 {
		host = "[::1]:0"
	}
	in := collector.CollectorInput{Address: host, Protocol: cfg.proto, MaxBufferSize: 65535, IsIPv6: cfg.v6, IsEncrypted: cfg.enc}
	if cfg.enc {
		in.ServerCert, in.ServerKey = server.CertPEM, server.KeyPEM
		if cfg.proto == "tcp" && cfg.v6 {
			in.CACert = ca.CertPEM // tls6 also exercises client authentication
		}
	}
	if cfg.proto == "tcp" {
		in.TemplateTTL = 1 // seconds; template lifetime management is for UDP (RFC 7011 8.4): over tcp/tls it must not bite
	}
	coll, err := lib.StartCollector(in)
	if err != nil {
		return nil, err
	}
	ep, err := newExporter(cfg, coll.Addr(), domain)
	if err != nil {
		coll.Stop(10 * time.Second)
		return nil, err
	}
	return &session{cfg: cfg, coll: coll, ep: ep, domain: domain, retired: map[uint16]bool{}}, nil
}

func newExporter(cfg config, addr string, domain uint32) (*exporter.ExportingProcess, error) {
	ein := exporter.ExporterInput{CollectorAddress: addr, CollectorProtocol: cfg.proto, ObservationDomainID: domain, IsIPv6: cfg.v6, TempRefTimeout: 1800}
	if cfg.enc {
		ein.TLSClientConfig = &exporter.ExporterTLSClientConfig{CAData: ca.CertPEM}
		if cfg.proto == "tcp" && cfg.v6 {
			ein.TLSClientConfig.CertData, ein.TLSClientConfig.KeyData = client.CertPEM, client.KeyPEM
		}
	}
	return exporter.InitExportingProcess(ein)
}

func (s *session) close() {
	s.ep.CloseConnToCollector()
	s.coll.Stop(20 * time.Second)
}

func (s *session) stream() bool { return s.cfg.proto == "tcp" }

// next waits for the next delivery of this session that belongs to the current case.
// Over datagram transports a datagram of an EARLIER case may arrive late (a large datagram
// that was given up on, or the duplicate created by a re-send): such deliveries are skipped
// and counted; over stream transports nothing is ever skipped.
func (s *session) next(c *hx.Ctx, timeout time.Duration, tid uint16, wantTemplate bool) (*lib.Delivery, bool) {
	deadline := time.Now().Add(timeout)
	for {
		dp, ok := s.coll.Pop(s.domain, time.Until(deadline))
		if !ok {
			return nil, false
		}
		d := *dp
		s.seen++
		if !s.stream() && d.Out.ExtractErr == nil {
			if d.Out.SetID != tid && s.retired[d.Out.SetID] {
				c.Add("late_datagram_of_an_earlier_case_skipped", 1)
				continue
			}
			if d.Out.SetID == tid && d.Out.IsTemplate && !wantTemplate {
				c.Add("duplicate_template_datagram_from_resend_skipped", 1)
				continue
			}
		}
		return &d, true
	}
}

// burstCase: over plain UDP the application sends 34..44 (template, data) pairs back to back while the
// consumer of the collector stands still, so that a backlog of one exporter's datagrams builds up inside
// the collector. What is delivered afterwards must be those messages in the order sent, each exact (datagrams
// may be missing: loss is not judged).
func burstCase(c *hx.Ctx, k int, s *session, r *rand.Rand) {
	el := []regtable.Elem{lib.CustomElems[11]} // vfUnsigned32
	for attempt := 0; attempt < 2; attempt++ {
		n := 34 + r.IntN(11)
		type pair struct {
			tid uint16
			val uint32
		}
		var sent []pair
		s.coll.HoldConsumer()
		for i := 0; i < n; i++ {
			tid := s.ep.NewTemplateID()
			delete(s.retired, tid) // (template ids restart at 256 after an exporter turnover)
			val := uint32(0xB0000000) | uint32(k&0xfff)<<12 | uint32(attempt)<<8 | uint32(i)
			tset, err := lib.TemplateSet(tid, el, 0)
			if err == nil {
				_, err = s.ep.SendSet(tset)
			}
			if err == nil {
				dset := entities.NewSet(false)
				if err = lib.FillDataSet(dset, tid, el, [][][]byte{{refipfix.PU(4, uint64(val))}}, nil); err == nil {
					_, err = s.ep.SendSet(dset)
				}
			}
			if err != nil {
				s.coll.ReleaseConsumer()
				c.Violation(k, "burst-send-error:"+s.cfg.name, err.Error(), nil)
				return
			}
			sent = append(sent, pair{tid, val})
		}
		s.coll.ReleaseConsumer()
		// expected sequence: T0 D0 T1 D1 ...; collect until complete or quiet for 1.5 s
		pos := 0 // next expected index in the sequence (2i = template i, 2i+1 = data i)
		tmplSeen := make([]bool, n)
		delivered := 0
		for pos < 2*n {
			dp, ok := s.coll.Pop(s.domain, 1500*time.Millisecond)
			if !ok {
				break
			}
			o := dp.Out
			if o.ExtractErr == nil && s.retired[o.SetID] {
				continue // a late datagram of an earlier case
			}
			// which message of the burst is it?
			found := -1
			for j := 0; j < 2*n; j++ {
				p := sent[j/2]
				if o.ExtractErr == nil && o.SetID == p.tid && o.IsTemplate == (j%2 == 0) {
					found = j
					break
				}
			}
			if found < 0 {
				// not a message of this burst as sent: over UDP a template of the burst may have been shed, and its data
				// then read under an older template of the same id (a hazard of the transport, C04's subject): not judged
				c.Add("burst_deliveries_not_attributable", 1)
				continue
			}
			if found < pos {
				for _, p := range sent {
					s.retired[p.tid] = true
				}
				c.Violation(k, "burst-order:"+s.cfg.name, fmt.Sprintf("after a burst of %d (template, data) pairs against a consumer standing still, message %d of the burst (template=%v, set id %d) was delivered after message %d, which was sent later (or it was delivered twice)", n, found, o.IsTemplate, o.SetID, pos-1), nil)
				return
			}
			if found%2 == 0 {
				tmplSeen[found/2] = true
			}
			if found%2 == 1 && tmplSeen[found/2] { // (if its template was shed, the data was read under whatever older template has that id)
				if len(o.Records) != 1 || len(o.Records[0]) != 1 || !bytes.Equal(o.Records[0][0], refipfix.PU(4, uint64(sent[found/2].val))) {
					c.Violation(k, "burst-value:"+s.cfg.name, fmt.Sprintf("data message %d of the burst delivered as %x", found/2, o.Records), nil)
					return
				}
			}
			pos = found + 1
			delivered++
		}
		for _, p := range sent {
			s.retired[p.tid] = true
		}
		c.Add("burst_messages_delivered", int64(delivered))
		if delivered == 2*n {
			c.Add("bursts_delivered_completely", 1)
			return
		}
		c.Add("burst_messages_missing", int64(2*n-delivered))
	}
	// Loss is not judged: with its consumer standing still a collector may shed datagrams itself, as the kernel
	// would a little later ("at most once over UDP"); what it does deliver was judged above for order and content.
	c.Add("bursts_with_loss_twice_in_a_row", 1)
}

func main() {
	c := hx.New("C01")
	defer c.Finish()
	lib.Init()
	for _, m := range lib.RegistryMismatch {
		c.Violation(-1, "registry-table", m, nil)
	}
	ca = certs.NewCA("verif-ca")
	server = certs.Issue(ca, certs.Opts{CN: "collector", DNS: []string{"localhost"}, IPs: []string{"127.0.0.1", "::1"}})
	client = certs.Issue(ca, certs.Opts{CN: "exporter", Client: true})
	cfg := configs[c.Batch%len(configs)]
	per := c.Pick(400, 16000)
	if c.NBatch > len(configs) {
		per = per * len(configs) / c.NBatch * 1
	}
	var s *session
	mk := func() bool {
		var err error
		for attempt := 0; attempt < 3; attempt++ {
			s, err = newSession(cfg, 0xC0100000|uint32(c.Batch)<<8|uint32(time.Now().UnixNano()&0xff))
			if err == nil {
				return true
			}
			time.Sleep(100 * time.Millisecond)
		}
		// a correctly configured collector/exporter pair on loopback that cannot get a session going
		// three times in a row is not an environment problem
		c.Violation(-1, "cannot-establish-session:"+cfg.name, fmt.Sprintf("a correctly configured exporter/collector pair could not establish a %s session in 3 attempts: %v", cfg.name, err), nil)
		return false
	}
	if !mk() {
		c.Finish()
		os.Exit(0)
	}
	if cfg.proto == "udp" {
		// alongside the cases: a session of its own that lives across several template refresh intervals
		refreshDone := make(chan struct{})
		go func() {
			defer close(refreshDone)
			c.Guard(-2, "refresh:"+cfg.name, nil, func() {
				if why := refreshCase(c, cfg, c.Rand(-2, 0)); why != "" {
					// confirm on a fresh session before reporting (a refresh tick delayed by seconds on a loaded machine)
					if why2 := refreshCase(c, cfg, c.Rand(-2, 1)); why2 != "" {
						c.Violation(-2, "not-delivered-after-refresh:"+cfg.name, why2, nil)
					}
				}
			})
		}()
		defer func() { <-refreshDone }()
	}
	defer func() {
		if s != nil {
			s.close()
		}
	}()
	from, to := c.Range(per)
	for k := from; k < to; k++ {
		r := c.Rand(k, 0)
		nf := 1 + r.IntN(40)
		if r.IntN(6) == 0 {
			nf = 1 + r.IntN(3)
		}
		elems := gen.Template(r, lib.Pool, nf)
		budget := 65535 - 20
		if cfg.proto == "udp" {
			budget = 65507 - 20
			if cfg.v6 {
				budget = 65527 - 20
			}
			if cfg.enc {
				budget -= 64 // DTLS record overhead
				if r.IntN(12) != 0 {
					budget = 7800 // pion/dtls drops records above its 8 KiB receive buffer
				}
			}
		}
		var nrec int
		switch r.IntN(4) {
		case 0:
			nrec = 1
		case 1:
			nrec = 1 + r.IntN(6)
		case 2:
			nrec = 1 + r.IntN(80)
		default:
			nrec = 1 << 20 // as many as fit
		}
		recs := gen.Records(r, elems, nrec, budget)
		boundary := false
		for _, rec := range recs {
			for j, p := range rec {
				if elems[j].Len == refipfix.VarLen {
					switch len(p) {
					case 0, 254, 255, 256:
						boundary = true
						c.Add(fmt.Sprintf("boundary_len_%d", len(p)), 1)
					}
				}
			}
		}
		names := make([]string, len(elems))
		for i, e := range elems {
			names[i] = fmt.Sprintf("%d/%d:%s", e.Ent, e.ID, e.Type)
		}
		desc := map[string]any{"config": cfg.name, "elements": names, "records": len(recs)}
		c.Journal(k, desc)
		c.Eval(1)
		ok := false
		c.Guard(k, "end-to-end:"+cfg.name, desc, func() {
			ok = oneCase(c, k, s, elems, recs, desc)
		})
		if ok && (len(elems) >= 2 || len(recs) >= 2 || boundary) {
			c.Nontrivial(hx.H64(cfg.name, fmt.Sprint(names), fmt.Sprint(recs)))
			c.Distinct("templates", hx.H64(fmt.Sprint(names)))
		}
		if m := s.coll.Mutations(); len(m) > 0 {
			c.Violation(k, "delivered-message-changed-later:"+cfg.name, m[0], desc)
			ok = false
		}
		if ok && cfg.proto == "udp" && !cfg.enc && k%24 == 7 {
			c.Guard(k, "burst:"+cfg.name, desc, func() { burstCase(c, k, s, r) })
		}
		if ok && k%16 == 15 && !(cfg.proto == "udp" && cfg.enc) {
			// exporter turnover: a new exporting process of the same observation domain connects to the
			// same long-lived collector (an exporter restart). Its template ids start again at 256, so the
			// collector sees earlier template ids redefined. (Not over DTLS: that collector serves one session.)
			s.ep.CloseConnToCollector()
			if !s.stream() {
				// let datagrams still in flight be delivered before template ids start again at 256
				for last, quiet := -1, 0; quiet < 3; {
					n := s.coll.Total()
					if n == last {
						quiet++
					} else {
						quiet, last = 0, n
					}
					time.Sleep(100 * time.Millisecond)
				}
				for s.coll.Pending(s.domain) > 0 { // late datagrams of earlier cases
					s.coll.Pop(s.domain, time.Millisecond)
					c.Add("late_datagram_of_an_earlier_case_skipped", 1)
				}
			}
			ep, err := newExporter(cfg, s.coll.Addr(), s.domain)
			if err != nil {
				c.Inconclusive("exporter turnover: " + err.Error())
				ok = false
			} else {
				s.ep = ep
				c.Add("exporter_turnovers", 1)
			}
		}
		if !ok {
			// re-establish the session after any failure (a stream collector closes on error)
			s.close()
			s = nil
			if c.NumViolations() > 20 || !mk() {
				break
			}
		}
		if k < from+4 {
			c.Sample(4, desc)
		}
	}
}

func oneCase(c *hx.Ctx, k int, s *session, elems []regtable.Elem, recs [][][]byte, desc map[string]any) bool {
	cfgName := s.cfg.name
	fail := func(class, why string) bool {
		c.Violation(k, class+":"+cfgName, why, desc)
		return false
	}
	tid := s.ep.NewTemplateID()
	delete(s.retired, tid)
	defer func() { s.retired[tid] = true }()
	r := c.Rand(k, 1)
	attempts := 1
	if !s.stream() {
		attempts = 3
	}
	// ---- template ----
	var td *lib.Delivery
	for a := 0; a < attempts && td == nil; a++ {
		tset, err := lib.TemplateSet(tid, elems, r.IntN(4))
		if err != nil {
			return fail("templateset-error", err.Error())
		}
		if _, err := s.ep.SendSet(tset); err != nil {
			return fail("send-template-error", err.Error())
		}
		c.Add("sent_"+cfgName, 1)
		wait := 20 * time.Second
		if !s.stream() {
			wait = 3 * time.Second
		}
		d, ok := s.next(c, wait, tid, true)
		if ok {
			td = d
		} else if s.stream() {
			return fail("not-delivered", "template message sent successfully but never delivered")
		} else {
			c.Add("datagram_resend", 1)
		}
	}
	if td == nil {
		return fail("datagram-never-delivered", fmt.Sprintf("template datagram not delivered in %d attempts", attempts))
	}
	c.Add("delivered_"+cfgName, 1)
	o := td.Out
	if o.ExtractErr != nil || !o.IsTemplate || o.SetID != tid {
		return fail("template-delivery", fmt.Sprintf("expected template %d, delivered template=%v id=%d err=%v", tid, o.IsTemplate, o.SetID, o.ExtractErr))
	}
	if o.Domain != s.domain {
		return fail("domain", fmt.Sprintf("delivered domain %d, configured %d", o.Domain, s.domain))
	}
	if len(o.TFields) != len(elems) {
		return fail("template-field-count", fmt.Sprintf("%d fields delivered, %d sent", len(o.TFields), len(elems)))
	}
	for i, e := range elems {
		if o.TFields[i] != e.Field() || o.TNames[i] != e.Name || o.TTypes[i] != e.Type {
			return fail("template-field", fmt.Sprintf("field %d delivered as (%d,%d,len %d,%q,%v), sent (%d,%d,len %d,%q,%v)", i, o.TFields[i].Ent, o.TFields[i].ID, o.TFields[i].Len, o.TNames[i], o.TTypes[i], e.Ent, e.ID, e.Len, e.Name, e.Type))
		}
	}
	if len(recs) == 0 {
		return true
	}
	// ---- data ----
	size := 20
	for _, rec := range recs {
		for j, p := range rec {
			size += gen.EncLen(elems[j].Len, p)
		}
	}
	required := s.stream() || size <= 8000
	var dd *lib.Delivery
	for a := 0; a < attempts && dd == nil; a++ {
		dset := entities.NewSet(false)
		if err := lib.FillDataSet(dset, tid, elems, recs, r); err != nil {
			return fail("dataset-error", err.Error())
		}
		n, err := s.ep.SendSet(dset)
		if err != nil {
			if !s.stream() && size > 9000 {
				c.Add("datagram_refused_by_kernel", 1)
				return true
			}
			return fail("send-data-error", err.Error())
		}
		if n != size {
			// C01 is about what is delivered; an exporter may, for instance, pad its sets (RFC 7011 3.3.2)
			c.Add("sendset_count_differs_from_length_model", 1)
		}
		c.Add("sent_"+cfgName, 1)
		wait := 30 * time.Second
		if !s.stream() {
			wait = 3 * time.Second
			if !required {
				wait = 400 * time.Millisecond
				if !s.cfg.enc {
					wait = 3 * time.Second
				}
			}
		}
		d, ok := s.next(c, wait, tid, false)
		if ok {
			dd = d
		} else if s.stream() {
			return fail("not-delivered", fmt.Sprintf("data message (%d bytes) sent successfully but never delivered", size))
		} else if !required {
			c.Add("large_datagram_not_delivered_"+cfgName, 1)
			return true
		} else {
			c.Add("datagram_resend", 1)
		}
	}
	if dd == nil {
		return fail("datagram-never-delivered", fmt.Sprintf("data datagram (%d bytes) not delivered in %d attempts", size, attempts))
	}
	c.Add("delivered_"+cfgName, 1)
	o = dd.Out
	if o.ExtractErr != nil {
		return fail("delivered-unreadable", o.ExtractErr.Error())
	}
	if o.IsTemplate || o.SetID != tid || o.Domain != s.domain {
		return fail("data-delivery", fmt.Sprintf("expected data of template %d in domain %d; delivered template=%v id=%d domain=%d", tid, s.domain, o.IsTemplate, o.SetID, o.Domain))
	}
	if len(o.Records) != len(recs) {
		return fail("record-count", fmt.Sprintf("%d records delivered, %d sent", len(o.Records), len(recs)))
	}
	for i, rec := range recs {
		if len(o.Records[i]) != len(rec) {
			return fail("field-count", fmt.Sprintf("record %d: %d fields delivered, %d sent", i, len(o.Records[i]), len(rec)))
		}
		for j, p := range rec {
			if o.RecNames[i][j] != elems[j].Name {
				return fail("field-name", fmt.Sprintf("record %d field %d named %q, sent %q", i, j, o.RecNames[i][j], elems[j].Name))
			}
			if !bytes.Equal(o.Records[i][j], p) {
				return fail("value:"+elems[j].Type.String(), fmt.Sprintf("record %d field %d (%s): delivered %x, sent %x", i, j, elems[j].Name, clip(o.Records[i][j]), clip(p)))
			}
			c.Add("values_"+elems[j].Type.String(), 1)
		}
	}
	c.Add("records_compared", int64(len(recs)))
	if s.stream() && k%97 == 13 {
		// Over a stream transport a template is sent once and holds for the session: the same records sent again
		// after the session has been idle for longer than the collector's configured template lifetime (1 s for
		// the stream collectors of this check; the lifetime is a matter of UDP) must still be delivered.
		time.Sleep(1300 * time.Millisecond)
		dset := entities.NewSet(false)
		if err := lib.FillDataSet(dset, tid, elems, recs, r); err != nil {
			return fail("dataset-error", err.Error())
		}
		if _, err := s.ep.SendSet(dset); err != nil {
			return fail("send-data-error", "after an idle period: "+err.Error())
		}
		d, ok := s.next(c, 30*time.Second, tid, false)
		if !ok || d.Out.ExtractErr != nil || d.Out.IsTemplate || d.Out.SetID != tid || len(d.Out.Records) != len(recs) {
			return fail("not-delivered-after-idle", fmt.Sprintf("the data message sent 1.3 s after the previous one on the same %s session was not delivered as sent", cfgName))
		}
		c.Add("data_delivered_after_an_idle_period_longer_than_the_template_ttl", 1)
	}
	return true
}

func clip(b []byte) []byte {
	if len(b) > 24 {
		return b[:24]
	}
	return b
}

// refreshCase: over a datagram transport templates live at the collector for the configured lifetime after their
// most recent (re)transmission, and the exporter retransmits every template each refresh interval. Three
// templates, refresh interval 1 s, lifetime 3 s at the collector; after 4.2 s without application traffic one data
// record per template must be delivered exactly as sent. Returns "" or what went wrong.
func refreshCase(c *hx.Ctx, cfg config, r *rand.Rand) string {
	host := "127.0.0.1:0"
	if cfg.v6 {
		host = "[::1]:0"
	}
	in := collector.CollectorInput{Address: host, Protocol: "udp", MaxBufferSize: 65535, IsIPv6: cfg.v6, IsEncrypted: cfg.enc, TemplateTTL: 3}
	if cfg.enc {
		in.ServerCert, in.ServerKey = server.CertPEM, server.KeyPEM
	}
	coll, err := lib.StartCollector(in)
	if err != nil {
		c.Inconclusive("refresh case: collector: " + err.Error())
		return ""
	}
	defer coll.Stop(20 * time.Second)
	domain := 0xC01F0000 | uint32(c.Batch)<<8 | uint32(r.IntN(256))
	ein := exporter.ExporterInput{CollectorAddress: coll.Addr(), CollectorProtocol: "udp", ObservationDomainID: domain, IsIPv6: cfg.v6, TempRefTimeout: 1}
	if cfg.enc {
		ein.TLSClientConfig = &exporter.ExporterTLSClientConfig{CAData: ca.CertPEM}
	}
	ep, err := exporter.InitExportingProcess(ein)
	if err != nil {
		c.Inconclusive("refresh case: exporter: " + err.Error())
		return ""
	}
	defer ep.CloseConnToCollector()
	el := []regtable.Elem{lib.CustomElems[11]} // vfUnsigned32
	nT := 3 + r.IntN(3)
	var tids []uint16
	for i := 0; i < nT; i++ {
		tid := ep.NewTemplateID()
		ts, err := lib.TemplateSet(tid, el, 0)
		if err != nil {
			return "templateset: " + err.Error()
		}
		if _, err := ep.SendSet(ts); err != nil {
			return "template send: " + err.Error()
		}
		tids = append(tids, tid)
	}
	time.Sleep(4200 * time.Millisecond)
	got := map[uint16]bool{}
	vals := map[uint16]uint64{}
	for _, tid := range tids {
		v := uint64(r.Uint32())
		vals[tid] = v
		ds := entities.NewSet(false)
		if err := lib.FillDataSet(ds, tid, el, [][][]byte{{refipfix.PU(4, v)}}, nil); err != nil {
			return "dataset: " + err.Error()
		}
		if _, err := ep.SendSet(ds); err != nil {
			return "data send after 4.2 s: " + err.Error()
		}
	}
	refreshed := 0
	deadline := time.Now().Add(3 * time.Second)
	for len(got) < len(tids) && time.Now().Before(deadline) {
		d, ok := coll.Pop(domain, time.Until(deadline))
		if !ok {
			break
		}
		o := d.Out
		if o.ExtractErr != nil {
			return fmt.Sprintf("a delivered message could not be read: %v", o.ExtractErr)
		}
		if o.IsTemplate {
			refreshed++
			continue
		}
		if want, known := vals[o.SetID]; known {
			if len(o.Records) != 1 || len(o.Records[0]) != 1 || !bytes.Equal(o.Records[0][0], refipfix.PU(4, want)) {
				return fmt.Sprintf("data for template %d delivered as %x, sent %x", o.SetID, o.Records, refipfix.PU(4, want))
			}
			got[o.SetID] = true
		}
	}
	c.Add("refresh_cases", 1)
	c.Add("template_messages_delivered_in_refresh_cases", int64(refreshed))
	if len(got) < len(tids) {
		return fmt.Sprintf("%s: %d templates sent, refresh interval 1 s, template lifetime at the collector 3 s; 4.2 s later one data record per template was sent and only those of %d templates were delivered (%d template messages were delivered in all): templates were not kept alive by the refresh", cfg.name, len(tids), len(got), refreshed)
	}
	c.Add("refresh_cases_all_data_delivered", 1)
	return ""
}

// C18: encrypted transports authenticate the peer and never fall back to plaintext.
//
// A case is one cell of the certificate / name / version / plaintext matrix. The real
// exporting and collecting processes are used on one side or on both; hand-made crypto/tls
// and raw peers are used where a misbehaving peer is needed. Each cell has an expected
// outcome: negative cells must not establish a session (or must not deliver), positive
// cells must work, so that the check cannot pass by everything failing.
package main

import (
	"bytes"
	"crypto/tls"
	"crypto/x509"
	"fmt"
	"net"
	"time"

	"github.com/vmware/go-ipfix/pkg/collector"
	"github.com/vmware/go-ipfix/pkg/entities"
	"github.com/vmware/go-ipfix/pkg/exporter"

	"verif/harness/certs"
	"verif/harness/gen"
	"verif/harness/hx"
	"verif/harness/lib"
	"verif/harness/peers"
	"verif/harness/refipfix"
	"verif/harness/regtable"
)

type pki struct {
	clientCA                                                            *certs.Pair // what the collector is told to trust for exporters (distinct from the CA of its own certificate)
	cliFromClientCA, cliExpiredCCA                                      *certs.Pair
	ca, otherCA                                                         *certs.Pair
	good                                                                certs.Opts
	srvTrusted, srvOtherCA, srvSelf, srvExpired, srvFuture, srvWrongSAN *certs.Pair
	srvNoSAN                                                            *certs.Pair
	cliTrusted, cliOtherCA, cliExpired                                  *certs.Pair
}

func mkPKI(v6 bool) *pki {
	ip := "127.0.0.1"
	if v6 {
		ip = "::1"
	}
	p := &pki{ca: certs.NewCA("verif-ca"), otherCA: certs.NewCA("other-ca")}
	good := certs.Opts{CN: "collector", DNS: []string{"collector.test"}, IPs: []string{ip}}
	p.good = good
	p.srvTrusted = certs.Issue(p.ca, good)
	p.srvOtherCA = certs.Issue(p.otherCA, good)
	self := good
	self.SelfSign = true
	p.srvSelf = certs.Issue(p.ca, self)
	exp := good
	exp.NotBefore, exp.NotAfter = time.Now().Add(-48*time.Hour), time.Now().Add(-time.Hour)
	p.srvExpired = certs.Issue(p.ca, exp)
	fut := good
	fut.NotBefore, fut.NotAfter = time.Now().Add(24*time.Hour), time.Now().Add(48*time.Hour)
	p.srvFuture = certs.Issue(p.ca, fut)
	p.srvWrongSAN = certs.Issue(p.ca, certs.Opts{CN: "collector", DNS: []string{"other.test"}, IPs: []string{"10.9.9.9"}})
	p.srvNoSAN = certs.Issue(p.ca, certs.Opts{CN: "collector.test"})
	p.clientCA = certs.NewCA("client-ca")
	p.cliFromClientCA = certs.Issue(p.clientCA, certs.Opts{CN: "exporter", Client: true})
	p.cliExpiredCCA = certs.Issue(p.clientCA, certs.Opts{CN: "exporter", Client: true, NotBefore: time.Now().Add(-48 * time.Hour), NotAfter: time.Now().Add(-time.Hour)})
	p.cliTrusted = certs.Issue(p.ca, certs.Opts{CN: "exporter", Client: true})
	p.cliOtherCA = certs.Issue(p.otherCA, certs.Opts{CN: "exporter", Client: true})
	cexp := certs.Opts{CN: "exporter", Client: true, NotBefore: time.Now().Add(-48 * time.Hour), NotAfter: time.Now().Add(-time.Hour)}
	p.cliExpired = certs.Issue(p.ca, cexp)
	return p
}

type cell struct {
	name string
	v6   bool
	run  func(c *hx.Ctx, k int, p *pki, v6 bool) (class, why string)
	neg  bool
}

var elems = []regtable.Elem{lib.CustomElems[11]}

func host(v6 bool) string {
	if v6 {
		return "[::1]:0"
	}
	return "127.0.0.1:0"
}

// sendOne sends a template and one data record; returns the first error.
func sendOne(ep *exporter.ExportingProcess) error {
	tid := ep.NewTemplateID()
	ts, err := lib.TemplateSet(tid, elems, 0)
	if err != nil {
		return err
	}
	if _, err := ep.SendSet(ts); err != nil {
		return err
	}
	ds := entities.NewSet(false)
	if err := lib.FillDataSet(ds, tid, elems, [][][]byte{{refipfix.PU(4, 0xC18C18)}}, nil); err != nil {
		return err
	}
	_, err = ep.SendSet(ds)
	return err
}

const negWait = 600 * time.Millisecond
const posWait = 10 * time.Second

// tlsExporterVsCollector: real exporter and real collector over TLS.
func tlsExporterVsCollector(srv func(*pki) *certs.Pair, serverName string, clientCA bool, cli func(*pki) *certs.Pair, wantSession, wantDelivery bool, serverNeg bool, free ...bool) func(*hx.Ctx, int, *pki, bool) (string, string) {
	// free: the statement obliges to nothing in this cell (an exporter holding a certificate of its own that is
	// expired or from another CA, against a collector that asks for none): the session may work or be refused
	notJudged := len(free) > 0 && free[0]
	return func(c *hx.Ctx, k int, p *pki, v6 bool) (string, string) {
		s := srv(p)
		in := collector.CollectorInput{Address: host(v6), Protocol: "tcp", MaxBufferSize: 65535, IsIPv6: v6, IsEncrypted: true, ServerCert: s.CertPEM, ServerKey: s.KeyPEM}
		if clientCA {
			in.CACert = p.ca.CertPEM
		}
		coll, err := lib.StartCollector(in)
		if err != nil {
			return "collector-did-not-start", err.Error()
		}
		defer coll.Stop(20 * time.Second)
		domain := uint32(0xC1800000 + k)
		tc := &exporter.ExporterTLSClientConfig{ServerName: serverName, CAData: p.ca.CertPEM}
		if cli != nil {
			cp := cli(p)
			tc.CertData, tc.KeyData = cp.CertPEM, cp.KeyPEM
		}
		ep, err := exporter.InitExportingProcess(exporter.ExporterInput{CollectorAddress: coll.Addr(), CollectorProtocol: "tcp", ObservationDomainID: domain, TLSClientConfig: tc, IsIPv6: v6})
		if err != nil {
			if wantSession && !notJudged {
				return "positive-cell-failed", "the exporter could not establish a session that must work: " + err.Error()
			}
			return "", ""
		}
		defer ep.CloseConnToCollector()
		if !wantSession && serverNeg {
			return "session-with-unverifiable-server", "InitExportingProcess completed a TLS session with a collector whose certificate must be refused"
		}
		serr := sendOne(ep)
		wait := negWait
		if wantDelivery {
			wait = posWait
		}
		got, _ := coll.Wait(domain, 2, wait)
		if wantDelivery {
			if len(got) < 2 && !notJudged {
				return "positive-cell-failed", fmt.Sprintf("session established but %d of 2 messages delivered (send error: %v)", len(got), serr)
			}
			return "", ""
		}
		if len(got) > 0 {
			return "delivered-from-unauthenticated-exporter", fmt.Sprintf("%d messages were delivered from an exporter that must not be accepted", len(got))
		}
		return "", ""
	}
}

// tlsHostNameAddress: the collector is addressed by HOST NAME ("localhost:port") and no ServerName is configured:
// the expected name is then that host name, not the address it resolves to.
func tlsHostNameAddress(srv func(*pki) *certs.Pair, want bool) func(*hx.Ctx, int, *pki, bool) (string, string) {
	return func(c *hx.Ctx, k int, p *pki, v6 bool) (string, string) {
		s := srv(p)
		coll, err := lib.StartCollector(collector.CollectorInput{Address: host(v6), Protocol: "tcp", MaxBufferSize: 65535, IsIPv6: v6, IsEncrypted: true, ServerCert: s.CertPEM, ServerKey: s.KeyPEM})
		if err != nil {
			return "collector-did-not-start", err.Error()
		}
		defer coll.Stop(20 * time.Second)
		_, port, _ := net.SplitHostPort(coll.Addr())
		if conn, err := net.DialTimeout("tcp", "localhost:"+port, 2*time.Second); err != nil {
			c.Add("cells_skipped:localhost_does_not_reach_the_collector", 1)
			return "", ""
		} else {
			conn.Close()
		}
		domain := uint32(0xC1800000 + k)
		ep, err := exporter.InitExportingProcess(exporter.ExporterInput{CollectorAddress: "localhost:" + port, CollectorProtocol: "tcp", ObservationDomainID: domain, IsIPv6: v6,
			TLSClientConfig: &exporter.ExporterTLSClientConfig{CAData: p.ca.CertPEM}})
		if err != nil {
			if want {
				return "positive-cell-failed", "the exporter could not establish a session that must work: " + err.Error()
			}
			return "", ""
		}
		defer ep.CloseConnToCollector()
		if !want {
			return "session-with-unverifiable-server", "collector addressed as localhost:<port>, no ServerName configured: InitExportingProcess completed a TLS session although the collector's certificate does not name localhost (it names the IP address localhost resolves to)"
		}
		serr := sendOne(ep)
		if got, _ := coll.Wait(domain, 2, posWait); len(got) < 2 {
			return "positive-cell-failed", fmt.Sprintf("session established but %d of 2 messages delivered (send error: %v)", len(got), serr)
		}
		return "", ""
	}
}

// clientAuthDistinctCAs: the collector's own certificate is issued by one CA (optionally supplied as a
// full-chain bundle: leaf + issuing CA), exporters must be authenticated against ANOTHER CA.
func clientAuthDistinctCAs(bundle bool, cli func(*pki) *certs.Pair, wantDelivery bool) func(*hx.Ctx, int, *pki, bool) (string, string) {
	return func(c *hx.Ctx, k int, p *pki, v6 bool) (string, string) {
		serverPEM := p.srvTrusted.CertPEM
		if bundle {
			serverPEM = append(append([]byte{}, p.srvTrusted.CertPEM...), p.ca.CertPEM...)
		}
		coll, err := lib.StartCollector(collector.CollectorInput{Address: host(v6), Protocol: "tcp", MaxBufferSize: 65535, IsIPv6: v6, IsEncrypted: true,
			ServerCert: serverPEM, ServerKey: p.srvTrusted.KeyPEM, CACert: p.clientCA.CertPEM})
		if err != nil {
			return "collector-did-not-start", err.Error()
		}
		defer coll.Stop(20 * time.Second)
		domain := uint32(0xC1850000 + k)
		tc := &exporter.ExporterTLSClientConfig{CAData: p.ca.CertPEM}
		if cli != nil {
			cp := cli(p)
			tc.CertData, tc.KeyData = cp.CertPEM, cp.KeyPEM
		}
		ep, err := exporter.InitExportingProcess(exporter.ExporterInput{CollectorAddress: coll.Addr(), CollectorProtocol: "tcp", ObservationDomainID: domain, TLSClientConfig: tc, IsIPv6: v6})
		if err != nil {
			if wantDelivery {
				return "positive-cell-failed", "exporter with a certificate from the client CA refused: " + err.Error()
			}
			return "", ""
		}
		defer ep.CloseConnToCollector()
		serr := sendOne(ep)
		wait := negWait
		if wantDelivery {
			wait = posWait
		}
		got, _ := coll.Wait(domain, 2, wait)
		if wantDelivery && len(got) < 2 {
			return "positive-cell-failed", fmt.Sprintf("%d of 2 messages delivered (send error: %v)", len(got), serr)
		}
		if !wantDelivery && len(got) > 0 {
			return "delivered-from-unauthenticated-exporter", fmt.Sprintf("%d messages were delivered from an exporter whose certificate was not issued by the configured client CA", len(got))
		}
		return "", ""
	}
}

// exporterVsTLSServer: real exporter against a hand-made TLS server limited to maxVer.
func exporterVsTLSServer(maxVer uint16, want bool) func(*hx.Ctx, int, *pki, bool) (string, string) {
	return func(c *hx.Ctx, k int, p *pki, v6 bool) (string, string) {
		cert, _ := tls.X509KeyPair(p.srvTrusted.CertPEM, p.srvTrusted.KeyPEM)
		ln, err := tls.Listen("tcp", host(v6), &tls.Config{Certificates: []tls.Certificate{cert}, MinVersion: tls.VersionTLS10, MaxVersion: maxVer})
		if err != nil {
			return "harness", err.Error()
		}
		peer := peers.NewTCPPeerOn(ln)
		defer peer.Close()
		ep, err := exporter.InitExportingProcess(exporter.ExporterInput{CollectorAddress: peer.Addr(), CollectorProtocol: "tcp", ObservationDomainID: 7,
			TLSClientConfig: &exporter.ExporterTLSClientConfig{CAData: p.ca.CertPEM}, IsIPv6: v6})
		if err != nil {
			if want {
				return "positive-cell-failed", "exporter refused a TLS 1.2+ server: " + err.Error()
			}
			return "", ""
		}
		defer ep.CloseConnToCollector()
		if !want {
			return "session-below-tls12", fmt.Sprintf("the exporter completed a handshake with a server that tops out at version %#x", maxVer)
		}
		if err := sendOne(ep); err != nil {
			return "positive-cell-failed", "send over TLS failed: " + err.Error()
		}
		conn := peer.WaitConn(0, 5*time.Second)
		if conn == nil {
			return "positive-cell-failed", "server saw no connection"
		}
		b, ok := conn.WaitLen(40, 5*time.Second)
		if !ok || len(b) < 2 || b[0] != 0 || b[1] != 10 {
			return "positive-cell-failed", "the TLS server did not receive the IPFIX message"
		}
		return "", ""
	}
}

// tlsClientVsCollector: hand-made TLS client limited to maxVer against the real collector.
func tlsClientVsCollector(maxVer uint16, want bool) func(*hx.Ctx, int, *pki, bool) (string, string) {
	return func(c *hx.Ctx, k int, p *pki, v6 bool) (string, string) {
		coll, err := lib.StartCollector(collector.CollectorInput{Address: host(v6), Protocol: "tcp", MaxBufferSize: 65535, IsIPv6: v6, IsEncrypted: true,
			ServerCert: p.srvTrusted.CertPEM, ServerKey: p.srvTrusted.KeyPEM})
		if err != nil {
			return "collector-did-not-start", err.Error()
		}
		defer coll.Stop(20 * time.Second)
		pool := x509.NewCertPool()
		pool.AppendCertsFromPEM(p.ca.CertPEM)
		domain := uint32(0xC1810000 + k)
		conn, err := tls.DialWithDialer(&net.Dialer{Timeout: 5 * time.Second}, "tcp", coll.Addr(), &tls.Config{RootCAs: pool, MinVersion: tls.VersionTLS10, MaxVersion: maxVer})
		if err == nil {
			defer conn.Close()
			conn.Write(refipfix.BuildMessage(domain, 0, 1, 2, refipfix.EncodeTemplateRecord(300, gen.Fields(elems))))
		}
		if want {
			if err != nil {
				return "positive-cell-failed", "collector refused a TLS 1.2+ client: " + err.Error()
			}
			if got, _ := coll.Wait(domain, 1, posWait); len(got) < 1 {
				return "positive-cell-failed", "message over TLS not delivered"
			}
			return "", ""
		}
		if err == nil {
			return "session-below-tls12", fmt.Sprintf("the collector completed a handshake with a client that tops out at version %#x", maxVer)
		}
		if got, _ := coll.Wait(domain, 1, negWait); len(got) > 0 {
			return "delivered-below-tls12", "a message from a pre-TLS-1.2 client was delivered"
		}
		return "", ""
	}
}

// tlsSequenceOnOneCollector: several exporter configurations connect, one after the other and
// in this process, to the SAME collector instance (same address). A first exporter that
// legitimately trusts the collector's CA keeps its session open for a while (so that session
// tickets are received); later exporters configured with a CA that did not issue the
// collector's certificate, or expecting another name, must still be refused: nothing
// learned in an earlier session may replace verification.
func tlsSequenceOnOneCollector() func(*hx.Ctx, int, *pki, bool) (string, string) {
	return func(c *hx.Ctx, k int, p *pki, v6 bool) (string, string) {
		coll, err := lib.StartCollector(collector.CollectorInput{Address: host(v6), Protocol: "tcp", MaxBufferSize: 65535, IsIPv6: v6, IsEncrypted: true,
			ServerCert: p.srvTrusted.CertPEM, ServerKey: p.srvTrusted.KeyPEM})
		if err != nil {
			return "collector-did-not-start", err.Error()
		}
		defer coll.Stop(20 * time.Second)
		connect := func(ca []byte, serverName string, domain uint32) (*exporter.ExportingProcess, error) {
			return exporter.InitExportingProcess(exporter.ExporterInput{CollectorAddress: coll.Addr(), CollectorProtocol: "tcp", ObservationDomainID: domain, IsIPv6: v6,
				CheckConnInterval: 20 * time.Millisecond, TLSClientConfig: &exporter.ExporterTLSClientConfig{ServerName: serverName, CAData: ca}})
		}
		for round := 0; round < 2; round++ {
			for _, sn := range []string{"", "collector.test"} {
				d1 := uint32(0xC1840000 + k*16 + round*4)
				good, err := connect(p.ca.CertPEM, sn, d1)
				if err != nil {
					return "positive-cell-failed", "trusted exporter refused: " + err.Error()
				}
				sendOne(good)
				if got, _ := coll.Wait(d1, 2, posWait); len(got) < 2 {
					good.CloseConnToCollector()
					return "positive-cell-failed", "trusted exporter's messages not delivered"
				}
				time.Sleep(150 * time.Millisecond) // several connection checks: post-handshake messages are read
				good.CloseConnToCollector()
				// now the ones that must be refused, same address, same process
				if ep, err := connect(p.otherCA.CertPEM, sn, d1+1); err == nil {
					sendOne(ep)
					got, _ := coll.Wait(d1+1, 1, negWait)
					ep.CloseConnToCollector()
					return "session-with-unverifiable-server", fmt.Sprintf("after an earlier legitimate session to the same collector (ServerName %q), an exporter configured with a CA that did not issue the collector's certificate completed a session (%d messages delivered)", sn, len(got))
				}
				if ep, err := connect(p.ca.CertPEM, "wrong.test", d1+2); err == nil {
					ep.CloseConnToCollector()
					return "session-with-unverifiable-server", "after an earlier legitimate session, an exporter expecting another server name completed a session"
				}
			}
		}
		return "", ""
	}
}

func plainExporterVsEncryptedCollector(proto string) func(*hx.Ctx, int, *pki, bool) (string, string) {
	return func(c *hx.Ctx, k int, p *pki, v6 bool) (string, string) {
		coll, err := lib.StartCollector(collector.CollectorInput{Address: host(v6), Protocol: proto, MaxBufferSize: 65535, IsIPv6: v6, IsEncrypted: true,
			ServerCert: p.srvTrusted.CertPEM, ServerKey: p.srvTrusted.KeyPEM})
		if err != nil {
			return "collector-did-not-start", err.Error()
		}
		defer coll.Stop(20 * time.Second)
		domain := uint32(0xC1820000 + k)
		ep, err := exporter.InitExportingProcess(exporter.ExporterInput{CollectorAddress: coll.Addr(), CollectorProtocol: proto, ObservationDomainID: domain, IsIPv6: v6})
		if err == nil {
			defer ep.CloseConnToCollector()
			sendOne(ep)
			sendOne(ep)
		}
		if got, _ := coll.Wait(domain, 1, negWait); len(got) > 0 {
			return "plaintext-accepted-by-encrypted-collector", fmt.Sprintf("%d messages sent in clear were delivered by a collector configured for encryption (%s)", len(got), proto)
		}
		return "", ""
	}
}

func hasClearIPFIX(b []byte) bool {
	// a version-10 header followed by a plausible length and a set id 2 (template) / our data
	for i := 0; i+20 <= len(b); i++ {
		if b[i] == 0 && b[i+1] == 10 && bytes.Equal(b[i+16:i+18], []byte{0, 2}) {
			return true
		}
	}
	return false
}

func tlsExporterVsPlainPeer() func(*hx.Ctx, int, *pki, bool) (string, string) {
	return func(c *hx.Ctx, k int, p *pki, v6 bool) (string, string) {
		peer, err := peers.NewTCPPeer("tcp", host(v6))
		if err != nil {
			return "harness", err.Error()
		}
		defer peer.Close()
		go func() { // a plaintext peer never answers the ClientHello; it hangs up after a while
			if conn := peer.WaitConn(0, 5*time.Second); conn != nil {
				time.Sleep(400 * time.Millisecond)
				conn.Conn.Close()
			}
		}()
		ep, err := exporter.InitExportingProcess(exporter.ExporterInput{CollectorAddress: peer.Addr(), CollectorProtocol: "tcp", ObservationDomainID: 9,
			TLSClientConfig: &exporter.ExporterTLSClientConfig{CAData: p.ca.CertPEM}, IsIPv6: v6})
		if err == nil {
			sendOne(ep)
			ep.CloseConnToCollector()
		}
		time.Sleep(50 * time.Millisecond)
		var seen []byte
		if conn := peer.WaitConn(0, time.Second); conn != nil {
			seen = conn.Bytes()
		}
		if hasClearIPFIX(seen) {
			return "ipfix-in-clear", "an exporter configured with TLS settings wrote a readable IPFIX message to a plaintext peer"
		}
		if err == nil {
			return "session-with-plaintext-peer", "InitExportingProcess with TLS settings succeeded against a peer that does not speak TLS"
		}
		return "", ""
	}
}

func dtlsExporterVsPlainPeer() func(*hx.Ctx, int, *pki, bool) (string, string) {
	return func(c *hx.Ctx, k int, p *pki, v6 bool) (string, string) {
		peer, err := peers.NewUDPPeer("udp", host(v6))
		if err != nil {
			return "harness", err.Error()
		}
		defer peer.Close()
		ep, err := exporter.InitExportingProcess(exporter.ExporterInput{CollectorAddress: peer.Addr(), CollectorProtocol: "udp", ObservationDomainID: 9,
			TLSClientConfig: &exporter.ExporterTLSClientConfig{CAData: p.ca.CertPEM}, IsIPv6: v6})
		if err == nil {
			sendOne(ep)
			ep.CloseConnToCollector()
		}
		for _, dg := range peer.All() {
			if hasClearIPFIX(dg.Data) {
				return "ipfix-in-clear", "an exporter configured with DTLS settings sent a readable IPFIX message to a plaintext peer"
			}
		}
		if err == nil {
			return "session-with-plaintext-peer", "InitExportingProcess with DTLS settings succeeded against a peer that does not speak DTLS"
		}
		return "", ""
	}
}

// dtlsExporterVsCollector: real exporter and real collector over DTLS.
func dtlsExporterVsCollector(srv func(*pki) *certs.Pair, serverName string, want bool, judged bool) func(*hx.Ctx, int, *pki, bool) (string, string) {
	return func(c *hx.Ctx, k int, p *pki, v6 bool) (string, string) {
		s := srv(p)
		coll, err := lib.StartCollector(collector.CollectorInput{Address: host(v6), Protocol: "udp", MaxBufferSize: 65535, IsIPv6: v6, IsEncrypted: true, ServerCert: s.CertPEM, ServerKey: s.KeyPEM})
		if err != nil {
			return "collector-did-not-start", err.Error()
		}
		defer coll.Stop(20 * time.Second)
		domain := uint32(0xC1830000 + k)
		ep, err := exporter.InitExportingProcess(exporter.ExporterInput{CollectorAddress: coll.Addr(), CollectorProtocol: "udp", ObservationDomainID: domain, IsIPv6: v6,
			TLSClientConfig: &exporter.ExporterTLSClientConfig{ServerName: serverName, CAData: p.ca.CertPEM}})
		if err != nil {
			if want {
				return "positive-cell-failed", "DTLS session that must work failed: " + err.Error()
			}
			return "", ""
		}
		defer ep.CloseConnToCollector()
		if !judged {
			c.Add("dtls_cells_recorded_not_judged", 1)
			return "", ""
		}
		if !want {
			return "session-with-unverifiable-server", "InitExportingProcess completed a DTLS session with a collector whose certificate must be refused"
		}
		sendOne(ep)
		if got, _ := coll.Wait(domain, 2, posWait); len(got) < 2 {
			return "positive-cell-failed", fmt.Sprintf("DTLS session established but %d of 2 messages delivered", len(got))
		}
		return "", ""
	}
}

func main() {
	c := hx.New("C18")
	defer c.Finish()
	lib.Init()
	type srvKind struct {
		name string
		f    func(*pki) *certs.Pair
		ok   bool
	}
	srvKinds := []srvKind{
		{"trusted", func(p *pki) *certs.Pair { return p.srvTrusted }, true},
		{"other-ca", func(p *pki) *certs.Pair { return p.srvOtherCA }, false},
		{"self-signed", func(p *pki) *certs.Pair { return p.srvSelf }, false},
		{"expired", func(p *pki) *certs.Pair { return p.srvExpired }, false},
		{"not-yet-valid", func(p *pki) *certs.Pair { return p.srvFuture }, false},
		// close to the boundaries of the validity period (issued when the cell runs, so that the three minutes
		// are three minutes): "within its validity period" has no allowance for clock skew
		{"valid-in-3-minutes", func(p *pki) *certs.Pair {
			o := p.good
			o.NotBefore, o.NotAfter = time.Now().Add(3*time.Minute), time.Now().Add(24*time.Hour)
			return certs.Issue(p.ca, o)
		}, false},
		{"expired-3-minutes-ago", func(p *pki) *certs.Pair {
			o := p.good
			o.NotBefore, o.NotAfter = time.Now().Add(-24*time.Hour), time.Now().Add(-3*time.Minute)
			return certs.Issue(p.ca, o)
		}, false},
		{"wrong-san", func(p *pki) *certs.Pair { return p.srvWrongSAN }, false},
		{"no-san", func(p *pki) *certs.Pair { return p.srvNoSAN }, false},
	}
	type cliKind struct {
		name string
		f    func(*pki) *certs.Pair
		ok   bool
	}
	cliKinds := []cliKind{
		{"none", nil, false},
		{"trusted", func(p *pki) *certs.Pair { return p.cliTrusted }, true},
		{"other-ca", func(p *pki) *certs.Pair { return p.cliOtherCA }, false},
		{"expired", func(p *pki) *certs.Pair { return p.cliExpired }, false},
	}
	var cells []cell
	families := []bool{false}
	if c.Thorough() {
		families = []bool{false, true}
	}
	for _, v6 := range families {
		for _, sk := range srvKinds {
			for _, sn := range []string{"", "collector.test", "wrong.test"} {
				want := sk.ok && sn != "wrong.test"
				cells = append(cells, cell{name: fmt.Sprintf("tls server=%s servername=%q", sk.name, sn), v6: v6, neg: !want,
					run: tlsExporterVsCollector(sk.f, sn, false, nil, want, want, true)})
			}
		}
		for _, ck := range cliKinds {
			for _, caSet := range []bool{false, true} {
				wantDelivery := !caSet || ck.ok
				cells = append(cells, cell{name: fmt.Sprintf("tls client-cert=%s collector-client-ca=%v", ck.name, caSet), v6: v6, neg: !wantDelivery,
					run: tlsExporterVsCollector(func(p *pki) *certs.Pair { return p.srvTrusted }, "", caSet, ck.f, wantDelivery, wantDelivery, false, !caSet && ck.f != nil && !ck.ok)})
			}
		}
		// ServerName given as an IP literal: it must be honoured like a DNS name (crypto/tls never sends an
		// IP literal as SNI, so code that takes the expected name from the connection state loses it)
		dialIP := "127.0.0.1"
		if v6 {
			dialIP = "::1"
		}
		cells = append(cells, cell{name: "tls server=trusted servername=<IP literal of the dialled address>", v6: v6,
			run: tlsExporterVsCollector(func(p *pki) *certs.Pair { return p.srvTrusted }, dialIP, false, nil, true, true, true)})
		cells = append(cells, cell{name: "tls server=trusted servername=<other IP literal 10.9.9.9>", v6: v6, neg: true,
			run: tlsExporterVsCollector(func(p *pki) *certs.Pair { return p.srvTrusted }, "10.9.9.9", false, nil, false, false, true)})
		cells = append(cells, cell{name: "tls server=certificate for 10.9.9.9/other.test servername=10.9.9.9 (dialled by another address)", v6: v6,
			run: tlsExporterVsCollector(func(p *pki) *certs.Pair { return p.srvWrongSAN }, "10.9.9.9", false, nil, true, true, true)})
		cells = append(cells, cell{name: "tls server=certificate for 10.9.9.9/other.test servername=other.test", v6: v6,
			run: tlsExporterVsCollector(func(p *pki) *certs.Pair { return p.srvWrongSAN }, "other.test", false, nil, true, true, true)})
		// the collector addressed by host name, ServerName unset: the certificate must name the HOST NAME
		cells = append(cells, cell{name: "tls address=localhost:<port> servername unset, certificate names collector.test and the loopback IP only", v6: v6, neg: true,
			run: tlsHostNameAddress(func(p *pki) *certs.Pair { return p.srvTrusted }, false)})
		cells = append(cells, cell{name: "tls address=localhost:<port> servername unset, certificate names localhost", v6: v6,
			run: tlsHostNameAddress(func(p *pki) *certs.Pair { return certs.Issue(p.ca, certs.Opts{CN: "collector", DNS: []string{"localhost"}}) }, true)})
		for _, bundle := range []bool{false, true} {
			for _, ck := range []struct {
				name string
				f    func(*pki) *certs.Pair
				ok   bool
			}{
				{"from-client-ca", func(p *pki) *certs.Pair { return p.cliFromClientCA }, true},
				{"from-the-server-certificate's-ca", func(p *pki) *certs.Pair { return p.cliTrusted }, false},
				{"other-ca", func(p *pki) *certs.Pair { return p.cliOtherCA }, false},
				{"expired-from-client-ca", func(p *pki) *certs.Pair { return p.cliExpiredCCA }, false},
				{"none", nil, false},
			} {
				cells = append(cells, cell{name: fmt.Sprintf("tls distinct client CA, server cert bundle=%v, client-cert=%s", bundle, ck.name), v6: v6, neg: !ck.ok, run: clientAuthDistinctCAs(bundle, ck.f, ck.ok)})
			}
		}
		for _, v := range []struct {
			ver  uint16
			want bool
		}{{tls.VersionTLS10, false}, {tls.VersionTLS11, false}, {tls.VersionTLS12, true}, {tls.VersionTLS13, true}} {
			cells = append(cells, cell{name: fmt.Sprintf("exporter vs tls server max=%#x", v.ver), v6: v6, neg: !v.want, run: exporterVsTLSServer(v.ver, v.want)})
			cells = append(cells, cell{name: fmt.Sprintf("tls client max=%#x vs collector", v.ver), v6: v6, neg: !v.want, run: tlsClientVsCollector(v.ver, v.want)})
		}
		cells = append(cells, cell{name: "tls sequence on one collector: trusted session, then other-CA and wrong-name exporters", v6: v6, neg: true, run: tlsSequenceOnOneCollector()})
		cells = append(cells, cell{name: "plaintext exporter vs tls collector", v6: v6, neg: true, run: plainExporterVsEncryptedCollector("tcp")})
		cells = append(cells, cell{name: "plaintext exporter vs dtls collector", v6: v6, neg: true, run: plainExporterVsEncryptedCollector("udp")})
		cells = append(cells, cell{name: "tls exporter vs plaintext peer", v6: v6, neg: true, run: tlsExporterVsPlainPeer()})
		// DTLS
		for _, sk := range srvKinds {
			switch sk.name {
			case "wrong-san", "no-san":
				// name verification: judged only with a DNS ServerName
				cells = append(cells, cell{name: fmt.Sprintf("dtls server=%s servername=%q", sk.name, "collector.test"), v6: v6, neg: true, run: dtlsExporterVsCollector(sk.f, "collector.test", false, true)})
				cells = append(cells, cell{name: fmt.Sprintf("dtls server=%s servername=%q (not judged)", sk.name, ""), v6: v6, run: dtlsExporterVsCollector(sk.f, "", false, false)})
			default:
				cells = append(cells, cell{name: fmt.Sprintf("dtls server=%s servername=%q", sk.name, ""), v6: v6, neg: !sk.ok, run: dtlsExporterVsCollector(sk.f, "", sk.ok, true)})
				cells = append(cells, cell{name: fmt.Sprintf("dtls server=%s servername=%q", sk.name, "collector.test"), v6: v6, neg: !sk.ok, run: dtlsExporterVsCollector(sk.f, "collector.test", sk.ok, true)})
			}
		}
		cells = append(cells, cell{name: "dtls server=trusted servername=\"wrong.test\"", v6: v6, neg: true, run: dtlsExporterVsCollector(func(p *pki) *certs.Pair { return p.srvTrusted }, "wrong.test", false, true)})
		if c.Thorough() {
			cells = append(cells, cell{name: "dtls exporter vs plaintext peer (30 s handshake timeout)", v6: v6, neg: true, run: dtlsExporterVsPlainPeer()})
		}
	}
	rounds := c.Pick(1, 3) // fresh certificate parameters per round
	c.Note("cells", len(cells))
	c.Note("exhaustive", c.Thorough())
	from, to := c.Range(len(cells) * rounds)
	pk := map[[2]int]*pki{}
	for k := from; k < to; k++ {
		if k%c.NBatch != c.Batch {
			continue
		}
		ce := cells[k%len(cells)]
		round := k / len(cells)
		key := [2]int{round, map[bool]int{false: 0, true: 1}[ce.v6]}
		if pk[key] == nil {
			pk[key] = mkPKI(ce.v6)
		}
		desc := map[string]any{"cell": ce.name, "ipv6": ce.v6, "round": round, "negative": ce.neg}
		c.Journal(k, desc)
		c.Eval(1)
		var class, why string
		c.Guard(k, "c18-cell", desc, func() { class, why = ce.run(c, k, pk[key], ce.v6) })
		switch class {
		case "":
			c.Nontrivial(hx.H64(ce.name, ce.v6, round))
			if ce.neg {
				c.Add("negative_cells_held", 1)
			} else {
				c.Add("positive_cells_worked", 1)
			}
		case "harness":
			c.Inconclusive(ce.name + ": " + why)
		default:
			c.Violation(k, class, ce.name+": "+why, desc)
		}
		if k < from+len(cells) && k%9 == 0 {
			c.Sample(10, desc)
		}
	}
}

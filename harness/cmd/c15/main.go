// C15: information-element value codec — exact round trip and length accounting.
//
// For every (element, value): GetLength() == bytes written == refipfix's encoding length;
// the record buffer equals refipfix's encoding; decoding the bytes (directly and through
// the collector with a sentinel field after the element) yields the value.
package main

import (
	"bytes"
	"fmt"
	"math"
	"math/rand/v2"
	"net"
	"os"

	"github.com/vmware/go-ipfix/pkg/collector"
	"github.com/vmware/go-ipfix/pkg/entities"
	"github.com/vmware/go-ipfix/pkg/registry"

	"verif/harness/gen"
	"verif/harness/hx"
	"verif/harness/lib"
	"verif/harness/refipfix"
	"verif/harness/regtable"
)

type chunk struct {
	elem regtable.Elem
	kind string // "range" (lo..hi exhaustive), "rand" (n PRNG values + pools), "lens" (payload lengths), "boolbytes"
	lo   uint64
	hi   uint64
	lens []int
	n    int
}

var sentinel = regtable.Elem{Name: "vfUnsigned32", ID: 12, Ent: lib.CustomPEN, Type: refipfix.U32, Len: 4}

const sentinelVal = 0xA5C33C5A

func fixedOctetElem(n int) regtable.Elem {
	return regtable.Elem{Name: fmt.Sprintf("vfFix%d", n), ID: uint16(1000 + n%30000), Ent: lib.CustomPEN, Type: refipfix.OctetArray, Len: uint16(n)}
}

func buildChunks(c *hx.Ctx) []chunk {
	var out []chunk
	pick := func(t refipfix.Type, variable bool) []regtable.Elem {
		var shipped, custom *regtable.Elem
		for i := range lib.Pool {
			e := lib.Pool[i]
			if e.Type != t || (e.Len == refipfix.VarLen) != variable {
				continue
			}
			if e.Ent == lib.CustomPEN {
				if custom == nil {
					custom = &lib.Pool[i]
				}
			} else if shipped == nil {
				shipped = &lib.Pool[i]
			}
		}
		var r []regtable.Elem
		if shipped != nil {
			r = append(r, *shipped)
		}
		if custom != nil {
			r = append(r, *custom)
		}
		return r
	}
	// exhaustive 8/16-bit
	for _, t := range []refipfix.Type{refipfix.U8, refipfix.I8} {
		for _, e := range pick(t, false) {
			out = append(out, chunk{elem: e, kind: "range", lo: 0, hi: 255})
		}
	}
	for _, t := range []refipfix.Type{refipfix.U16, refipfix.I16} {
		for _, e := range pick(t, false) {
			for lo := uint64(0); lo < 65536; lo += 8192 {
				out = append(out, chunk{elem: e, kind: "range", lo: lo, hi: lo + 8191})
			}
		}
	}
	for _, e := range pick(refipfix.Bool, false) {
		out = append(out, chunk{elem: e, kind: "boolbytes"})
	}
	// wide types
	per := c.Pick(10000, 4000000)
	nch := c.Pick(4, 8)
	for _, t := range []refipfix.Type{refipfix.U32, refipfix.I32, refipfix.U64, refipfix.I64, refipfix.F32, refipfix.F64, refipfix.DTSec, refipfix.DTMilli, refipfix.Mac, refipfix.IPv4, refipfix.IPv6} {
		for _, e := range pick(t, false) {
			for i := 0; i < nch; i++ {
				out = append(out, chunk{elem: e, kind: "rand", n: per})
			}
		}
	}
	// variable-length strings and octet arrays
	var lens []int
	for l := 0; l <= 300; l++ {
		lens = append(lens, l)
	}
	for l := 65500; l <= 65535; l++ {
		lens = append(lens, l)
	}
	step := c.Pick(251, 13)
	for l := 301; l < 65500; l += step {
		lens = append(lens, l)
	}
	for _, t := range []refipfix.Type{refipfix.String, refipfix.OctetArray} {
		for _, e := range pick(t, true) {
			for i := 0; i < len(lens); i += 24 {
				j := i + 24
				if j > len(lens) {
					j = len(lens)
				}
				out = append(out, chunk{elem: e, kind: "lens", lens: lens[i:j]})
			}
		}
	}
	// fixed-length octet arrays 0..64 and 65534, plus the shipped custom ones
	for n := 0; n <= 64; n++ {
		out = append(out, chunk{elem: fixedOctetElem(n), kind: "rand", n: c.Pick(20, 400)})
	}
	out = append(out, chunk{elem: fixedOctetElem(65534), kind: "rand", n: 3})
	for _, e := range lib.CustomElems {
		if e.Type == refipfix.OctetArray && e.Len != refipfix.VarLen {
			out = append(out, chunk{elem: e, kind: "rand", n: c.Pick(50, 2000)})
		}
	}
	return out
}

type checker struct {
	c   *hx.Ctx
	dec *lib.Decoder
	tid uint16
}

func (ck *checker) values(r *rand.Rand, ch chunk) [][]byte {
	e := ch.elem
	var vals [][]byte
	switch ch.kind {
	case "range":
		w := int(refipfix.NaturalLen(e.Type))
		for v := ch.lo; v <= ch.hi; v++ {
			vals = append(vals, refipfix.PU(w, v))
		}
	case "boolbytes":
		vals = append(vals, []byte{1}, []byte{2})
	case "rand":
		for i := 0; i < ch.n; i++ {
			vals = append(vals, gen.Value(r, e, 0))
		}
	case "lens":
		for _, l := range ch.lens {
			vals = append(vals, gen.Bytes(r, l))
		}
	}
	return vals
}

func (ck *checker) one(k int, e regtable.Elem, ie, sie *entities.InfoElement, p []byte) {
	c := ck.c
	c.Eval(1)
	c.Nontrivial(hx.H64(e.Name, p))
	c.Add("values_"+e.Type.String(), 1)
	want, err := refipfix.EncodeField(e.Len, p)
	if err != nil {
		panic(err)
	}
	desc := map[string]any{"element": e.Name, "type": e.Type.String(), "len": e.Len, "payload_len": len(p), "payload_head": fmt.Sprintf("%x", head(p, 24))}
	c.Guard(k, "codec:"+e.Type.String(), desc, func() {
		v := lib.Value(ie, e.Type, p, len(p) == 4 && p[0]&1 == 1)
		if l := v.GetLength(); l != len(want) {
			c.Violation(k, "length:"+e.Type.String(), fmt.Sprintf("GetLength()=%d, encoding is %d bytes", l, len(want)), desc)
		}
		sv := entities.NewUnsigned32InfoElement(sie, sentinelVal)
		set := entities.NewSet(false)
		if err := set.PrepareSet(entities.Data, 300); err != nil {
			c.Violation(k, "prepare", err.Error(), desc)
			return
		}
		if err := set.AddRecord([]entities.InfoElementWithValue{v, sv}, 300); err != nil {
			c.Violation(k, "addrecord", err.Error(), desc)
			return
		}
		rec := set.GetRecords()[0]
		buf := rec.GetBuffer()
		exp := append(append([]byte{}, want...), refipfix.PU(4, sentinelVal)...)
		if rec.GetRecordLength() != len(exp) || len(buf) != len(exp) {
			c.Violation(k, "reclen:"+e.Type.String(), fmt.Sprintf("record length reported %d, buffer %d, encoding %d", rec.GetRecordLength(), len(buf), len(exp)), desc)
		}
		if !bytes.Equal(buf, exp) {
			c.Violation(k, "bytes:"+e.Type.String(), fmt.Sprintf("record buffer %x... differs from reference encoding %x...", head(buf, 32), head(exp, 32)), desc)
		}
		if len(p) >= 255 && e.Len == refipfix.VarLen {
			c.Add("prefix3", 1)
		} else if e.Len == refipfix.VarLen {
			c.Add("prefix1", 1)
		}
		// the exported stand-alone encoder must agree with the record encoder and the reference
		if gv, ok := goValue(e, p); ok {
			eb, err := entities.EncodeToIEDataType(lib.LibType(e.Type), gv)
			if err != nil {
				c.Violation(k, "encode-helper-error:"+e.Type.String(), err.Error(), desc)
			} else if !bytes.Equal(eb, want) {
				c.Violation(k, "encode-helper-bytes:"+e.Type.String(), fmt.Sprintf("EncodeToIEDataType gives %x..., reference encoding %x...", head(eb, 32), head(want, 32)), desc)
			}
			c.Add("encode_helper_compared", 1)
		}
		// direct decode
		d, err := entities.DecodeAndCreateInfoElementWithValue(ie, p)
		if err != nil {
			c.Violation(k, "decode-error:"+e.Type.String(), err.Error(), desc)
			return
		}
		got, err := lib.Payload(d)
		if err != nil || !bytes.Equal(got, p) {
			c.Violation(k, "roundtrip:"+e.Type.String(), fmt.Sprintf("decoded %x... (err %v), original %x...", head(got, 32), err, head(p, 32)), desc)
		}
		if d.GetLength() != len(want) {
			c.Violation(k, "length-decoded:"+e.Type.String(), fmt.Sprintf("decoded element GetLength()=%d, wire %d", d.GetLength(), len(want)), desc)
		}
	})
}

// goValue is the Go value an application would hand to EncodeToIEDataType for the payload.
func goValue(e regtable.Elem, p []byte) (interface{}, bool) {
	switch e.Type {
	case refipfix.U8:
		return uint8(refipfix.GU(p)), true
	case refipfix.U16:
		return uint16(refipfix.GU(p)), true
	case refipfix.U32, refipfix.DTSec:
		return uint32(refipfix.GU(p)), true
	case refipfix.U64, refipfix.DTMilli:
		return refipfix.GU(p), true
	case refipfix.I8:
		return int8(uint8(refipfix.GU(p))), true
	case refipfix.I16:
		return int16(uint16(refipfix.GU(p))), true
	case refipfix.I32:
		return int32(uint32(refipfix.GU(p))), true
	case refipfix.I64:
		return int64(refipfix.GU(p)), true
	case refipfix.F32:
		return math.Float32frombits(uint32(refipfix.GU(p))), true
	case refipfix.F64:
		return math.Float64frombits(refipfix.GU(p)), true
	case refipfix.Bool:
		return p[0] == 1, true
	case refipfix.Mac:
		return net.HardwareAddr(p), true
	case refipfix.IPv4, refipfix.IPv6:
		return net.IP(p), true
	case refipfix.String:
		return string(p), true
	}
	return nil, false // octetArray: the helper documents that it does not support it
}

func head(b []byte, n int) []byte {
	if len(b) > n {
		return b[:n]
	}
	return b
}

// throughCollector sends the values as records (element, sentinel) through the collector's
// decoder and compares value by value; a mis-consumed field shifts the sentinel.
func (ck *checker) throughCollector(k int, e regtable.Elem, vals [][]byte) {
	c := ck.c
	ck.tid++
	if ck.tid < 256 {
		ck.tid = 256
	}
	tmpl := []regtable.Elem{e, sentinel}
	tmsg := refipfix.BuildMessage(7, 0, 1, 2, refipfix.EncodeTemplateRecord(ck.tid, gen.Fields(tmpl)))
	desc := map[string]any{"element": e.Name, "type": e.Type.String(), "len": e.Len, "template": fmt.Sprintf("%x", tmsg)}
	_, err, pv, st := ck.dec.Decode(tmsg)
	if pv != nil {
		c.Violation(k, "panic:collector-template:"+e.Type.String(), fmt.Sprint(pv), map[string]any{"input": desc, "stack": st})
		return
	}
	if err != nil {
		c.Violation(k, "collector-template-rejected:"+e.Type.String(), err.Error(), desc)
		return
	}
	i := 0
	for i < len(vals) {
		var body []byte
		j := i
		for j < len(vals) {
			f, _ := refipfix.EncodeField(e.Len, vals[j])
			if len(body)+len(f)+4 > 65535-20 {
				break
			}
			body = append(body, f...)
			body = append(body, refipfix.PU(4, sentinelVal)...)
			j++
		}
		if j == i {
			// a single value that cannot fit one message with the sentinel (65535-byte payload): codec-only
			c.Add("too_large_for_message", 1)
			i++
			continue
		}
		dmsg := refipfix.BuildMessage(7, 0, 1, ck.tid, body)
		m, err, pv, st := ck.dec.Decode(dmsg)
		d2 := map[string]any{"element": e.Name, "records": j - i, "first_payload_len": len(vals[i])}
		if pv != nil {
			c.Violation(k, "panic:collector-data:"+e.Type.String(), fmt.Sprint(pv), map[string]any{"input": d2, "stack": st})
		} else if err != nil {
			c.Violation(k, "collector-data-rejected:"+e.Type.String(), err.Error(), d2)
		} else {
			recs, err := lib.RecordsPayload(m)
			if err != nil {
				c.Violation(k, "collector-values:"+e.Type.String(), err.Error(), d2)
			} else if len(recs) != j-i {
				c.Violation(k, "collector-count:"+e.Type.String(), fmt.Sprintf("%d records delivered, %d on the wire", len(recs), j-i), d2)
			} else {
				for x := range recs {
					if len(recs[x]) != 2 || !bytes.Equal(recs[x][0], vals[i+x]) || !bytes.Equal(recs[x][1], refipfix.PU(4, sentinelVal)) {
						c.Violation(k, "collector-mismatch:"+e.Type.String(), fmt.Sprintf("record %d: got %x / sentinel %x, sent %x", x, head(recs[x][0], 24), recs[x][len(recs[x])-1], head(vals[i+x], 24)), d2)
						break
					}
				}
				c.Add("collector_records", int64(len(recs)))
			}
		}
		i = j
	}
}

func main() {
	c := hx.New("C15")
	defer c.Finish()
	lib.Init()
	for n := 0; n <= 64; n++ {
		e := fixedOctetElem(n)
		registry.PutInfoElement(*entities.NewInfoElement(e.Name, e.ID, entities.OctetArray, e.Ent, e.Len), lib.CustomPEN)
	}
	e := fixedOctetElem(65534)
	registry.PutInfoElement(*entities.NewInfoElement(e.Name, e.ID, entities.OctetArray, e.Ent, e.Len), lib.CustomPEN)

	dec, err := lib.NewDecoder("tcp", collector.DecodingModeStrict, 0, nil)
	if err != nil {
		fmt.Println(err)
		os.Exit(2)
	}
	defer dec.Close()
	ck := &checker{c: c, dec: dec}
	chunks := buildChunks(c)
	c.Note("chunks_total", len(chunks))
	c.Note("exhaustive_parts", "unsigned8, signed8, unsigned16, signed16 (all values); boolean (both values; all 256 bytes presented, 1 and 2 judged); string/octetArray lengths 0..300 and 65500..65535 (every length)")
	sie := lib.IE(sentinel)
	from, to := c.Range(len(chunks))
	for k := from; k < to; k++ {
		if k%c.NBatch != c.Batch {
			continue
		}
		ch := chunks[k]
		r := c.Rand(k, 0)
		c.Journal(k, map[string]any{"element": ch.elem.Name, "type": ch.elem.Type.String(), "kind": ch.kind, "lo": ch.lo, "hi": ch.hi, "lens": ch.lens, "n": ch.n})
		ie := lib.IE(ch.elem)
		// template construction on the exporter side (uses the nil-value decode path)
		c.Guard(k, "MakeTemplateSet:"+ch.elem.Type.String(), ch.elem.Name, func() {
			ts, err := entities.MakeTemplateSet(300, []*entities.InfoElement{ie, sie})
			if err != nil {
				c.Violation(k, "maketemplate:"+ch.elem.Type.String(), err.Error(), ch.elem.Name)
				return
			}
			want := refipfix.EncodeTemplateRecord(300, gen.Fields([]regtable.Elem{ch.elem, sentinel}))
			if got := ts.GetRecords()[0].GetBuffer(); !bytes.Equal(got, want) {
				c.Violation(k, "template-bytes", fmt.Sprintf("template record %x, reference %x", got, want), ch.elem.Name)
			}
		})
		vals := ck.values(r, ch)
		if ch.kind == "boolbytes" {
			// 1 is true and 2 is false (RFC 7011 6.1.5). The other 254 byte values are not values of the
			// type: what the decoder makes of them (an error, false) is outside the statement; they are
			// presented all the same (a crash of the process would be reported by the front-end).
			for b := 0; b < 256; b++ {
				c.Eval(1)
				c.Nontrivial(hx.H64("boolbyte", b))
				d, err := entities.DecodeAndCreateInfoElementWithValue(ie, []byte{byte(b)})
				if b != 1 && b != 2 {
					if err != nil {
						c.Add("undefined_boolean_bytes_refused", 1)
					}
					continue
				}
				if err != nil {
					c.Violation(k, "decode-error:boolean", err.Error(), b)
					continue
				}
				if d.GetBooleanValue() != (b == 1) {
					c.Violation(k, "boolean-decode", fmt.Sprintf("byte %d decodes to %v", b, d.GetBooleanValue()), b)
				}
			}
		}
		for _, p := range vals {
			ck.one(k, ch.elem, ie, sie, p)
		}
		ck.throughCollector(k, ch.elem, vals)
		if len(vals) > 0 {
			c.Sample(8, map[string]any{"element": ch.elem.Name, "type": ch.elem.Type.String(), "kind": ch.kind, "values": len(vals), "first_payload": fmt.Sprintf("%x", head(vals[0], 16)), "last_payload_len": len(vals[len(vals)-1])})
		}
	}
}

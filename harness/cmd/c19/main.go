// C19: Kafka publication — one framed message per data record, in order.
//
// A case is a stream of decoded IPFIX messages (templates and data with 0..20 records)
// handed to a real KafkaProducer through PublishIPFIXMessages, with a recording
// sarama.AsyncProducer underneath. The recorded producer input must be exactly one message
// per data record, in record order, none for templates, on the configured topic; each
// payload must be a 4-byte big-endian length followed by exactly that many bytes which a
// field-level protowire parser reads as exactly the expected (field number -> value) set
// from flow.proto's numbering; the consumer-side DecodeAndPrintMsg must accept the payload
// and recover the same values.
package main

import (
	"encoding/binary"
	"fmt"
	"math/rand/v2"
	"net"
	"sort"
	"sync"
	"unicode/utf8"

	"github.com/IBM/sarama"
	"github.com/IBM/sarama/mocks"
	"google.golang.org/protobuf/encoding/protowire"
	"google.golang.org/protobuf/proto"
	"google.golang.org/protobuf/reflect/protoreflect"

	"github.com/vmware/go-ipfix/pkg/entities"
	"github.com/vmware/go-ipfix/pkg/kafka/consumer"
	consumerpb "github.com/vmware/go-ipfix/pkg/kafka/consumer/protobuf"
	"github.com/vmware/go-ipfix/pkg/kafka/producer"
	"github.com/vmware/go-ipfix/pkg/kafka/producer/convertor"
	convtest "github.com/vmware/go-ipfix/pkg/kafka/producer/convertor/test"

	"verif/harness/agg"
	"verif/harness/hx"
	"verif/harness/lib"
)

type recProducer struct {
	sarama.AsyncProducer // nil: transaction methods are never used
	in                   chan *sarama.ProducerMessage
	succ                 chan *sarama.ProducerMessage
	errs                 chan *sarama.ProducerError
	mu                   sync.Mutex
	got                  []*sarama.ProducerMessage
	gotBytes             [][]byte
	done                 chan struct{}
	withSucc             bool
}

func newRec(withSucc bool) *recProducer {
	p := &recProducer{in: make(chan *sarama.ProducerMessage), succ: make(chan *sarama.ProducerMessage), errs: make(chan *sarama.ProducerError), done: make(chan struct{}), withSucc: withSucc}
	go func() {
		defer close(p.done)
		for m := range p.in {
			// the bytes are taken when the message is handed over: a producer may reuse its buffer once the
			// message has been acknowledged
			if b, err := m.Value.Encode(); err == nil {
				p.gotBytes = append(p.gotBytes, append([]byte(nil), b...))
			} else {
				p.gotBytes = append(p.gotBytes, nil)
			}
			p.mu.Lock()
			p.got = append(p.got, m)
			p.mu.Unlock()
			if p.withSucc {
				p.succ <- m
			}
		}
	}()
	return p
}

func (p *recProducer) Input() chan<- *sarama.ProducerMessage     { return p.in }
func (p *recProducer) Successes() <-chan *sarama.ProducerMessage { return p.succ }
func (p *recProducer) Errors() <-chan *sarama.ProducerError      { return p.errs }
func (p *recProducer) AsyncClose()                               { close(p.in) }
func (p *recProducer) Close() error                              { close(p.in); <-p.done; return nil }

type want struct {
	varint map[protowire.Number]uint64
	str    map[protowire.Number]string
	// fields the schema has and the record has a value for, which the shipped convertor leaves out today
	// (FlowType2.FlowEndReason = 35, TcpState = 36): absent is accepted, present must be the record's value
	optVarint map[protowire.Number]uint64
	optStr    map[protowire.Number]string
}

func utf8str(r *rand.Rand) string {
	n := r.IntN(30)
	if r.IntN(20) == 0 {
		n = 200 + r.IntN(3000)
	}
	rs := make([]rune, n)
	for i := range rs {
		switch r.IntN(4) {
		case 0:
			rs[i] = rune('a' + r.IntN(26))
		case 1:
			rs[i] = rune(0x430 + r.IntN(32))
		case 2:
			rs[i] = rune(0x4e00 + r.IntN(500))
		default:
			rs[i] = rune(32 + r.IntN(95))
		}
	}
	s := string(rs)
	if !utf8.ValidString(s) {
		panic("generator produced invalid UTF-8")
	}
	return s
}

func big(r *rand.Rand) uint64 {
	switch r.IntN(5) {
	case 0:
		return 0
	case 1:
		return ^uint64(0)
	case 2:
		return uint64(r.Uint32())
	}
	return r.Uint64() >> uint(r.IntN(64))
}

func genRec(r *rand.Rand) (agg.Rec, want) {
	v6 := r.IntN(2) == 0
	k := agg.Key{V6: v6, SPort: uint16(r.IntN(65536)), DPort: uint16(r.IntN(65536)), Proto: uint8(r.IntN(256))}
	ip := func() net.IP {
		if v6 {
			b := make(net.IP, 16)
			for i := range b {
				b[i] = byte(r.IntN(256))
			}
			b[0] = 0x20
			return b
		}
		return net.IPv4(byte(1+r.IntN(223)), byte(r.IntN(256)), byte(r.IntN(256)), byte(r.IntN(256))).To4()
	}
	src, dst, cluster := ip(), ip(), ip()
	zero := func() net.IP {
		if v6 {
			return make(net.IP, 16)
		}
		return net.IPv4zero.To4()
	}
	if r.IntN(8) == 0 { // the unspecified address is a value like any other
		cluster = zero()
	}
	if r.IntN(16) == 0 {
		src = zero()
	}
	if r.IntN(16) == 0 {
		dst = zero()
	}
	k.Src, k.Dst = src.String(), dst.String()
	rec := agg.Rec{Key: k, Node: 'B', FlowType: uint8(1 + r.IntN(4)), Start: r.Uint32(), End: r.Uint32(), EndReason: uint8(r.IntN(4)), TCPState: "ESTABLISHED",
		Str: map[string]string{}, U8: map[string]uint8{}, U16: map[string]uint16{}, I32: map[string]int32{}, IP: map[string]net.IP{}}
	if r.IntN(6) == 0 {
		rec.Start, rec.End = 0, 0
	}
	for i := 0; i < agg.NC; i++ {
		rec.Total[i], rec.Delta[i] = big(r), big(r)
	}
	for _, n := range agg.StrFields() {
		if r.IntN(4) != 0 {
			rec.Str[n] = utf8str(r)
		}
	}
	rec.U16["destinationServicePort"] = uint16(r.IntN(65536))
	cname := "destinationClusterIPv4"
	if v6 {
		cname = "destinationClusterIPv6"
	}
	rec.IP[cname] = cluster
	// a narrower layout: some optional elements are not part of this record's template at all
	optional := map[string]protowire.Number{"sourcePodName": 19, "sourcePodNamespace": 20, "sourceNodeName": 21, "destinationPodName": 22, "destinationPodNamespace": 23,
		"destinationNodeName": 24, "destinationServicePort": 34, "destinationServicePortName": 26, "ingressNetworkPolicyName": 29, "ingressNetworkPolicyNamespace": 30,
		"egressNetworkPolicyName": 31, "egressNetworkPolicyNamespace": 32, "packetDeltaCount": 13, "octetDeltaCount": 14, "reversePacketDeltaCount": 17, "reverseOctetDeltaCount": 18,
		"flowStartSeconds": 4, cname: 25}
	rec.Omit = map[string]bool{}
	if r.IntN(2) == 0 {
		for n := range optional {
			if r.IntN(3) == 0 {
				rec.Omit[n] = true
			}
		}
	}
	w := want{varint: map[protowire.Number]uint64{}, str: map[protowire.Number]string{},
		optVarint: map[protowire.Number]uint64{35: uint64(rec.EndReason)}, optStr: map[protowire.Number]string{36: rec.TCPState}}
	vi := func(n protowire.Number, v uint64) {
		if v != 0 {
			w.varint[n] = v
		}
	}
	st := func(n protowire.Number, v string) {
		if v != "" {
			w.str[n] = v
		}
	}
	vi(4, uint64(rec.Start))
	vi(5, uint64(rec.End))
	st(6, src.String())
	st(7, dst.String())
	vi(8, uint64(k.SPort))
	vi(9, uint64(k.DPort))
	vi(10, uint64(k.Proto))
	vi(11, rec.Total[agg.Pkt])
	vi(12, rec.Total[agg.Oct])
	vi(13, rec.Delta[agg.Pkt])
	vi(14, rec.Delta[agg.Oct])
	vi(15, rec.Total[agg.RevPkt])
	vi(16, rec.Total[agg.RevOct])
	vi(17, rec.Delta[agg.RevPkt])
	vi(18, rec.Delta[agg.RevOct])
	st(19, rec.Str["sourcePodName"])
	st(20, rec.Str["sourcePodNamespace"])
	st(21, rec.Str["sourceNodeName"])
	st(22, rec.Str["destinationPodName"])
	st(23, rec.Str["destinationPodNamespace"])
	st(24, rec.Str["destinationNodeName"])
	st(25, cluster.String())
	vi(34, uint64(rec.U16["destinationServicePort"]))
	st(26, rec.Str["destinationServicePortName"])
	st(29, rec.Str["ingressNetworkPolicyName"])
	st(30, rec.Str["ingressNetworkPolicyNamespace"])
	st(31, rec.Str["egressNetworkPolicyName"])
	st(32, rec.Str["egressNetworkPolicyNamespace"])
	for n := range rec.Omit {
		delete(w.varint, optional[n])
		delete(w.str, optional[n])
	}
	return rec, w
}

type errRep struct{ msgs []string }

func (e *errRep) Errorf(f string, a ...interface{}) { e.msgs = append(e.msgs, fmt.Sprintf(f, a...)) }

func main() {
	c := hx.New("C19")
	defer c.Finish()
	lib.Init()
	total := c.Pick(3200, 240000)
	per := total / c.NBatch
	from, to := c.Range(per)
	for k := from; k < to; k++ {
		r := c.Rand(k, 0)
		c.Journal(k, "stream")
		c.Eval(1)
		oneStream(c, k, r)
		if c.NumViolations() > 20 {
			break
		}
	}
}

func oneStream(c *hx.Ctx, k int, r *rand.Rand) {
	type1 := r.IntN(2) == 0
	var conv convertor.IPFIXToKafkaConvertor
	if type1 {
		conv = convtest.NewFlowType1Convertor()
	} else {
		conv = convtest.NewFlowType2Convertor()
	}
	topic := fmt.Sprintf("topic-%d", r.IntN(1000))
	withSucc := r.IntN(3) == 0
	useMock := r.IntN(40) == 0
	kp, err := producer.NewKafkaProducer(producer.ProducerInput{KafkaTopic: topic, KafkaVersion: sarama.DefaultVersion, ProtoSchemaConvertor: conv, KafkaLogSuccesses: withSucc})
	if err != nil {
		c.Violation(k, "producer-init", err.Error(), nil)
		return
	}
	nmsg := 1 + r.IntN(12)
	type msgPlan struct {
		template bool
		recs     []agg.Rec
		wants    []want
		hdr      [3]uint32
		addr     string
	}
	var plans []msgPlan
	totalRecs := 0
	multi, tBetween := false, false
	for i := 0; i < nmsg; i++ {
		p := msgPlan{hdr: [3]uint32{r.Uint32(), r.Uint32(), r.Uint32()}, addr: []string{"10.1.2.3", "fd00::7", "", "192.168.0.1"}[r.IntN(4)]}
		if r.IntN(4) == 0 {
			p.template = true
			if totalRecs > 0 {
				tBetween = true
			}
		} else {
			n := r.IntN(21)
			if r.IntN(25) == 0 {
				// "0..n records": now and then a message with hundreds of records, of every residue modulo small
				// powers of two (a convertor that works in chunks must not lose the remainder)
				n = 60 + r.IntN(400)
				c.Add("messages_with_60_to_460_records", 1)
			}
			if n >= 2 {
				multi = true
			}
			for j := 0; j < n; j++ {
				rec, w := genRec(r)
				if p.hdr[0] != 0 {
					w.varint[1] = uint64(p.hdr[0])
				}
				if p.hdr[1] != 0 {
					w.varint[2] = uint64(p.hdr[1])
				}
				if p.hdr[2] != 0 {
					w.varint[3] = uint64(p.hdr[2])
				}
				if p.addr != "" {
					w.str[33] = p.addr
				}
				p.recs = append(p.recs, rec)
				p.wants = append(p.wants, w)
			}
			totalRecs += n
		}
		plans = append(plans, p)
	}
	var rec *recProducer
	var mock *mocks.AsyncProducer
	rep := &errRep{}
	var mockGot [][]byte
	var mockTopics []string
	var mmu sync.Mutex
	if useMock {
		cfg := mocks.NewTestConfig()
		cfg.Producer.Return.Successes = withSucc
		mock = mocks.NewAsyncProducer(rep, cfg)
		for i := 0; i < totalRecs; i++ {
			mock.ExpectInputWithMessageCheckerFunctionAndSucceed(func(m *sarama.ProducerMessage) error {
				b, _ := m.Value.Encode()
				b = append([]byte(nil), b...)
				mmu.Lock()
				mockGot = append(mockGot, b)
				mockTopics = append(mockTopics, m.Topic)
				mmu.Unlock()
				return nil
			})
		}
		kp.SetSaramaProducer(mock)
	} else {
		rec = newRec(withSucc)
		kp.SetSaramaProducer(rec)
	}
	ch := make(chan *entities.Message)
	pubDone := make(chan struct{})
	go func() { kp.PublishIPFIXMessages(ch); close(pubDone) }()
	for _, p := range plans {
		var m *entities.Message
		if p.template {
			m = entities.NewMessage(true)
			s := entities.NewSet(true)
			s.PrepareSet(entities.Template, 256)
			el := agg.Rec{Key: agg.Keys[0], Str: map[string]string{}}.Elements()
			s.AddRecord(el, 256)
			m.AddSet(s)
		} else {
			m = agg.Message(p.recs...)
		}
		m.SetExportTime(p.hdr[0])
		m.SetSequenceNum(p.hdr[1])
		m.SetObsDomainID(p.hdr[2])
		m.SetExportAddress(p.addr)
		ch <- m
	}
	close(ch)
	<-pubDone
	var payloads [][]byte
	var topics []string
	if useMock {
		if err := mock.Close(); err != nil {
			rep.msgs = append(rep.msgs, err.Error())
		}
		if len(rep.msgs) > 0 {
			c.Violation(k, "mock-producer-expectations", fmt.Sprint(rep.msgs), nil)
			return
		}
		payloads, topics = mockGot, mockTopics
		c.Add("streams_through_sarama_mock", 1)
	} else {
		rec.Close()
		for i, m := range rec.got {
			b := rec.gotBytes[i]
			if b == nil {
				c.Violation(k, "value-encode", "the message value could not be encoded when it was handed to the producer", nil)
				return
			}
			payloads = append(payloads, b)
			topics = append(topics, m.Topic)
		}
	}
	if len(payloads) != totalRecs {
		c.Violation(k, "message-count", fmt.Sprintf("%d Kafka messages published for %d data records (%d IPFIX messages, templates included)", len(payloads), totalRecs, nmsg), nil)
		return
	}
	idx := 0
	for _, p := range plans {
		for ri := range p.recs {
			b := payloads[idx]
			if topics[idx] != topic {
				c.Violation(k, "topic", fmt.Sprintf("message %d published on %q, configured %q", idx, topics[idx], topic), nil)
				return
			}
			if len(b) < 4 || int(binary.BigEndian.Uint32(b[:4])) != len(b)-4 {
				c.Violation(k, "length-prefix", fmt.Sprintf("message %d: %d bytes, prefix says %d", idx, len(b), binary.BigEndian.Uint32(b[:min(4, len(b))])), nil)
				return
			}
			if why := checkProto(b[4:], p.wants[ri]); why != "" {
				c.Violation(k, "protobuf-content", fmt.Sprintf("message %d (record %d of its IPFIX message): %s", idx, ri, why), nil)
				return
			}
			if why := checkConsumer(b, topic, p.wants[ri]); why != "" {
				c.Violation(k, "consumer-decode", fmt.Sprintf("message %d: %s", idx, why), nil)
				return
			}
			idx++
		}
	}
	c.Add("kafka_messages_checked", int64(totalRecs))
	if multi || tBetween {
		c.Nontrivial(hx.H64(k, totalRecs, fmt.Sprint(len(plans)), payloads[0:min(1, len(payloads))]))
	}
	if k%400 == 0 {
		c.Sample(6, map[string]any{"ipfix_messages": nmsg, "data_records": totalRecs, "schema1": type1, "topic": topic})
	}
}

// checkProto parses the payload with protowire only and compares the (number -> value) set.
func checkProto(b []byte, w want) string {
	seen := map[protowire.Number]bool{}
	for len(b) > 0 {
		num, typ, n := protowire.ConsumeTag(b)
		if n < 0 {
			return "malformed tag: " + protowire.ParseError(n).Error()
		}
		b = b[n:]
		if seen[num] {
			return fmt.Sprintf("field %d appears twice", num)
		}
		seen[num] = true
		switch typ {
		case protowire.VarintType:
			v, n := protowire.ConsumeVarint(b)
			if n < 0 {
				return "malformed varint"
			}
			b = b[n:]
			wv, ok := w.varint[num]
			if ov, opt := w.optVarint[num]; !ok && opt && ov == v {
				continue
			}
			if !ok || wv != v {
				return fmt.Sprintf("field %d = %d, expected %d (present=%v)", num, v, wv, ok)
			}
		case protowire.BytesType:
			v, n := protowire.ConsumeBytes(b)
			if n < 0 {
				return "malformed bytes"
			}
			b = b[n:]
			ws, ok := w.str[num]
			if os, opt := w.optStr[num]; !ok && opt && os == string(v) {
				continue
			}
			if !ok || ws != string(v) {
				return fmt.Sprintf("field %d = %q, expected %q (present=%v)", num, clipS(string(v)), clipS(ws), ok)
			}
		default:
			return fmt.Sprintf("field %d has unexpected wire type %d", num, typ)
		}
	}
	var missing []int
	for n := range w.varint {
		if !seen[n] {
			missing = append(missing, int(n))
		}
	}
	for n := range w.str {
		if !seen[n] {
			missing = append(missing, int(n))
		}
	}
	if len(missing) > 0 {
		sort.Ints(missing)
		return fmt.Sprintf("fields %v are missing from the payload", missing)
	}
	return ""
}

func clipS(s string) string {
	if len(s) > 60 {
		return s[:60] + "..."
	}
	return s
}

var (
	longKC     *consumer.KafkaConsumer
	longSchema *consumerpb.AntreaFlowMsg
	longTopic  string
	longUses   int
)

// checkConsumer runs the consumer-side decoder (delimited mode) and reads the values back.
func checkConsumer(payload []byte, topic string, w want) string {
	// one consumer decodes a stream of payloads (as a real consumer does): it is kept across payloads of a topic
	// and replaced now and then; every payload must be recovered on its own, whatever was decoded before it
	if longKC == nil || longTopic != topic || longUses >= 200 {
		longSchema = &consumerpb.AntreaFlowMsg{}
		longKC = consumer.NewKafkaConsumer(consumer.ConsumerInput{KafkaTopic: topic, KafkaProtoSchema: longSchema, MsgDelimitWithLen: true})
		longTopic, longUses = topic, 0
	}
	longUses++
	schema, kc := longSchema, longKC
	if err := kc.DecodeAndPrintMsg(&sarama.ConsumerMessage{Topic: topic, Value: payload}); err != nil {
		return "DecodeAndPrintMsg: " + err.Error()
	}
	var why string
	n := 0
	schema.ProtoReflect().Range(func(fd protoreflect.FieldDescriptor, v protoreflect.Value) bool {
		n++
		num := protowire.Number(fd.Number())
		switch fd.Kind() {
		case protoreflect.StringKind:
			if w.str[num] != v.String() {
				why = fmt.Sprintf("consumer recovered field %d = %q, expected %q", num, clipS(v.String()), clipS(w.str[num]))
				return false
			}
		default:
			if w.varint[num] != v.Uint() {
				why = fmt.Sprintf("consumer recovered field %d = %d, expected %d", num, v.Uint(), w.varint[num])
				return false
			}
		}
		return true
	})
	if why == "" && n != len(w.str)+len(w.varint) {
		why = fmt.Sprintf("consumer recovered %d populated fields, expected %d", n, len(w.str)+len(w.varint))
	}
	_ = proto.Size
	return why
}

// C13: the aggregation process is thread-safe — linearizable, no lost updates.
//
// Three workloads on a real AggregationProcess, all under the race detector:
//
//	lin   : many short concurrent histories (producers — exactly one per (flow, reporting
//	        node) stream —, scanners with an export-and-reset callback, readers, a
//	        time-shift goroutine) recorded at the call boundary with one monotonic clock and
//	        checked with porcupine against a sequential model of the process. Every ingested
//	        delta is a distinct power of two, so a read or an export identifies exactly
//	        which ingests it contains.
//	stress: 1..16 producers x many ingests with concurrent scans/queries/time shifts;
//	        conservation at quiescence: per (flow, node) sum(ingested deltas) ==
//	        sum(exported, then reset) + held, one export per flow per scan.
//	pool  : the built-in worker pool (Start with 1..16 workers fed through the channel,
//	        Stop), order-insensitive comparison with the sequential result.
package main

import (
	"fmt"
	"math/rand/v2"
	"net"
	"runtime"
	"sort"
	"strings"
	"sync"
	"sync/atomic"
	"time"

	"github.com/anishathalye/porcupine"

	"github.com/vmware/go-ipfix/pkg/entities"
	"github.com/vmware/go-ipfix/pkg/intermediate"

	"verif/harness/agg"
	"verif/harness/hx"
	"verif/harness/lib"
)

const (
	A  = 60
	I  = 100
	NF = 3
)

// ---- sequential model for porcupine ----

// The specification is C13's, not C06's or C07's: WHEN a scan hands a flow over (deadlines, the
// retry bound, re-arming policy) is not modelled - those sequential rules have their own checks
// and an implementation may change them without touching thread-safety. What every linearization
// must satisfy: a read or an export carries exactly the sums of the ingests ordered before it and
// after the previous reset (nothing lost, nothing counted twice), only a flow that exists and is
// ready (both sides seen, if it needs correlation) is exported, never twice at one point of the
// virtual time, existence as seen by get/num is consistent, and a flow disappears only through a
// scan (an exported flow may be removed by it; a flow still waiting for correlation may be
// dropped by it). Where the implementation has a choice the model branches (porcupine's
// NondeterministicModel).
type fstate struct {
	Held    bool
	Seen    [2]bool
	Sum     [2]uint64
	LastExp int // virtual minute of the last export, -1: never
}

type state struct {
	Now int
	F   [NF]fstate
}

type input struct {
	Op    string // ingest scan get num shift expiry
	Flow  int
	Node  int // 0 src 1 dst 2 both (uncorrelated flow)
	Delta uint64
	D     int
}

type export struct {
	Flow int
	Sum  [2]uint64
}

type output struct {
	Exports string // canonical rendering of the exported (flow, sums), sorted
	Ex      [NF]struct {
		Has bool
		N   int
		Sum [2]uint64
	}
	Exists bool
	Sum    [2]uint64
	N      int64
}

var corrFlow [NF]bool
var maxRetries = 2

func ready(i int, f fstate) bool { return !corrFlow[i] || (f.Seen[0] && f.Seen[1]) }

func initState() state {
	var s state
	for i := range s.F {
		s.F[i].LastExp = -1
	}
	return s
}

func one(ok bool, s state) []interface{} {
	if ok {
		return []interface{}{s}
	}
	return nil
}

func step(st interface{}, in interface{}, out interface{}) []interface{} {
	s := st.(state)
	i := in.(input)
	o := out.(output)
	switch i.Op {
	case "ingest":
		f := &s.F[i.Flow]
		if !f.Held {
			*f = fstate{Held: true, LastExp: f.LastExp}
		}
		if i.Node == 2 {
			f.Seen = [2]bool{true, true}
			f.Sum[0] += i.Delta
			f.Sum[1] += i.Delta
		} else {
			f.Seen[i.Node] = true
			f.Sum[i.Node] += i.Delta
		}
		return one(true, s)
	case "shift":
		s.Now += i.D
		return one(true, s)
	case "get":
		f := s.F[i.Flow]
		if o.Exists != f.Held {
			return nil
		}
		return one(!f.Held || o.Sum == f.Sum, s)
	case "num":
		n := int64(0)
		for _, f := range s.F {
			if f.Held {
				n++
			}
		}
		return one(o.N == n, s)
	case "expiry", "hold", "bad":
		return one(true, s) // (a record the process must refuse changes nothing)
	case "resetall":
		// ForAllRecordsDo with a callback that reads the delta sums and resets them: it visits exactly the held flows
		for fi := range s.F {
			if s.F[fi].Held != o.Ex[fi].Has || o.Ex[fi].N > 1 || (o.Ex[fi].Has && o.Ex[fi].Sum != s.F[fi].Sum) {
				return nil
			}
			s.F[fi].Sum = [2]uint64{}
		}
		return one(true, s)
	case "scan":
		var choice []int // flows whose fate (kept / removed) the scan may have decided either way
		for fi := range s.F {
			f := &s.F[fi]
			if o.Ex[fi].Has {
				if o.Ex[fi].N > 1 || !f.Held || !ready(fi, *f) || o.Ex[fi].Sum != f.Sum || f.LastExp == s.Now {
					return nil
				}
				f.Sum = [2]uint64{}
				f.LastExp = s.Now
				choice = append(choice, fi) // active expiry keeps it, inactive expiry removes it
			} else if f.Held && !ready(fi, *f) {
				choice = append(choice, fi) // retried, or dropped after the last retry
			}
		}
		var res []interface{}
		for mask := 0; mask < 1<<len(choice); mask++ {
			n := s
			for b, fi := range choice {
				if mask&(1<<b) != 0 {
					n.F[fi] = fstate{LastExp: n.F[fi].LastExp}
				}
			}
			res = append(res, n)
		}
		return res
	}
	return nil
}

func renderExports(ex []export) string {
	sort.Slice(ex, func(a, b int) bool { return ex[a].Flow < ex[b].Flow })
	return fmt.Sprint(ex)
}

func mkOutput(ex []export) output {
	o := output{Exports: renderExports(ex)}
	for _, e := range ex {
		if e.Flow >= 0 && e.Flow < NF {
			o.Ex[e.Flow].Has = true
			o.Ex[e.Flow].N++
			o.Ex[e.Flow].Sum = e.Sum
		} else {
			o.Ex[0].N += 2 // an export for a flow the history never ingested can be matched by no model state
			o.Ex[0].Has = true
		}
	}
	return o
}

var ndModel = porcupine.NondeterministicModel{
	Init: func() []interface{} { return []interface{}{initState()} },
	Step: step,
	DescribeOperation: func(in, out interface{}) string {
		return fmt.Sprintf("%+v -> %+v", in, out)
	},
}
var model = ndModel.ToModel()

// ---- helpers on the real process ----

func mkRec(flow, node int, end uint32, delta uint64) agg.Rec {
	nb := []byte{'S', 'D', 'B'}[node]
	ft := uint8(2)
	if !corrFlow[flow] {
		ft = 1
	}
	rec := agg.Rec{Key: agg.Keys[flow], Node: nb, FlowType: ft, Start: 1000, End: end, EndReason: 2, TCPState: "ESTABLISHED", Str: map[string]string{}}
	switch nb {
	case 'S':
		rec.Str["sourcePodName"] = "s"
	case 'D':
		rec.Str["destinationPodName"] = "d"
	default:
		rec.Str["sourcePodName"], rec.Str["destinationPodName"] = "s", "d"
	}
	for i := 0; i < agg.NC; i++ {
		rec.Total[i] = uint64(end) * 3
	}
	rec.Delta[agg.Pkt] = delta
	if nb == 'S' {
		// the source node knows the service address: a correlated field the destination node's record lacks
		rec.IP = map[string]net.IP{"destinationClusterIPv4": net.IP{10, 96, 0, byte(flow + 1)}, "destinationClusterIPv6": net.IP{0xfd, 0, 0, 0, 0, 0, 0, 0, 0, 0, 0, 0, 0, 0, 0x96, byte(flow + 1)}}
	}
	return rec
}

func sums(m map[string]interface{}) [2]uint64 {
	a, _ := m["packetDeltaCountFromSourceNode"].(uint64)
	b, _ := m["packetDeltaCountFromDestinationNode"].(uint64)
	return [2]uint64{a, b}
}

func flowIndex(fk intermediate.FlowKey) int {
	for i := 0; i < NF; i++ {
		if agg.Keys[i].FlowKey() == fk {
			return i
		}
	}
	return -1
}

type recorder struct {
	mu  sync.Mutex
	ops []porcupine.Operation
	t0  time.Time
}

func (r *recorder) do(client int, in input, f func() output) {
	call := time.Since(r.t0).Nanoseconds()
	out := f()
	ret := time.Since(r.t0).Nanoseconds()
	r.mu.Lock()
	r.ops = append(r.ops, porcupine.Operation{ClientId: client, Input: in, Call: call, Output: out, Return: ret})
	r.mu.Unlock()
}

func scanExport(ap *intermediate.AggregationProcess) output {
	var ex []export
	ap.ForAllExpiredFlowRecordsDo(func(fk intermediate.FlowKey, rec *intermediate.AggregationFlowRecord) error {
		m := rec.Record.GetElementMap()
		ex = append(ex, export{flowIndex(fk), sums(m)})
		return ap.ResetStatAndThroughputElementsInRecord(rec.Record)
	})
	return mkOutput(ex)
}

func walkAndReset(ap *intermediate.AggregationProcess) output {
	var ex []export
	ap.ForAllRecordsDo(func(fk intermediate.FlowKey, rec *intermediate.AggregationFlowRecord) error {
		ex = append(ex, export{flowIndex(fk), sums(rec.Record.GetElementMap())})
		return ap.ResetStatAndThroughputElementsInRecord(rec.Record)
	})
	return mkOutput(ex)
}

func linHistory(c *hx.Ctx, k int, r *rand.Rand) {
	procs := []int{1, 2, 4, 16}[r.IntN(4)]
	runtime.GOMAXPROCS(procs)
	defer runtime.GOMAXPROCS(16)
	c.Add(fmt.Sprintf("lin_histories_gomaxprocs_%d", procs), 1)
	for i := range corrFlow {
		corrFlow[i] = r.IntN(2) == 0
	}
	maxRetries = r.IntN(3)
	intermediate.MaxRetries = maxRetries
	ap := agg.NewProcess(A*time.Minute, I*time.Minute, 1, nil)
	rec := &recorder{t0: time.Now()}
	nflows := 1 + r.IntN(NF)
	type plan struct {
		client int
		ops    []input
	}
	var plans []plan
	bit := 0
	// producers: exactly one per (flow, node) stream
	for f := 0; f < nflows; f++ {
		nodes := []int{2}
		if corrFlow[f] {
			nodes = []int{0, 1}
			if r.IntN(4) == 0 {
				nodes = nodes[:1] // only one side ever reports: the flow must never be exported
			}
		}
		for _, n := range nodes {
			p := plan{client: len(plans)}
			for i := 0; i < 1+r.IntN(4); i++ {
				p.ops = append(p.ops, input{Op: "ingest", Flow: f, Node: n, Delta: 1 << uint(bit)})
				bit++
			}
			plans = append(plans, p)
		}
	}
	// scanners, readers, one time-shift goroutine
	for i := 0; i < 1+r.IntN(2); i++ {
		p := plan{client: len(plans)}
		for j := 0; j < 1+r.IntN(4); j++ {
			p.ops = append(p.ops, input{Op: "scan"})
		}
		plans = append(plans, p)
	}
	for i := 0; i < 1+r.IntN(2); i++ {
		p := plan{client: len(plans)}
		for j := 0; j < 1+r.IntN(5); j++ {
			switch r.IntN(4) {
			case 0:
				p.ops = append(p.ops, input{Op: "num"})
			case 1:
				p.ops = append(p.ops, input{Op: "expiry"})
			default:
				p.ops = append(p.ops, input{Op: "get", Flow: r.IntN(nflows)})
			}
		}
		plans = append(plans, p)
	}
	{
		p := plan{client: len(plans)}
		for j := 0; j < 1+r.IntN(3); j++ {
			p.ops = append(p.ops, input{Op: "shift", D: []int{A + 1, I + 1, A + I + 1, 7}[r.IntN(4)]})
		}
		plans = append(plans, p)
	}
	for i := 0; i < r.IntN(3); i++ { // 0-2 goroutines that walk all records through ForAllRecordsDo (read + reset)
		p := plan{client: len(plans)}
		for j := 0; j < 1+r.IntN(2); j++ {
			p.ops = append(p.ops, input{Op: "resetall"})
		}
		plans = append(plans, p)
	}
	if r.IntN(2) == 0 {
		// a goroutine that feeds records the process must refuse (no addresses): an error path that runs
		// concurrently with valid ingestion must not disturb it
		p := plan{client: len(plans)}
		for j := 0; j < 1+r.IntN(4); j++ {
			p.ops = append(p.ops, input{Op: "bad", Flow: r.IntN(nflows)})
		}
		plans = append(plans, p)
		c.Add("lin_histories_with_refused_records", 1)
	}
	if r.IntN(2) == 0 {
		// a goroutine that HOLDS the process lock for a while without changing anything (a walk over all records
		// with a slow read-only callback): queries that overlap it must still answer as of some point in between -
		// an implementation that serves a cached answer when the lock is busy shows here
		p := plan{client: len(plans)}
		for j := 0; j < 2+r.IntN(5); j++ {
			p.ops = append(p.ops, input{Op: "hold", D: 50 + r.IntN(250)})
		}
		plans = append(plans, p)
		p = plan{client: len(plans)}
		for j := 0; j < 2+r.IntN(5); j++ {
			p.ops = append(p.ops, input{Op: "num"})
		}
		plans = append(plans, p)
		c.Add("lin_histories_with_a_lock_holder", 1)
	}
	var wg sync.WaitGroup
	type heldRes struct {
		m map[string]interface{}
		s string
	}
	var heldMu sync.Mutex
	var held []heldRes
	var changed [][2]string
	startGate := make(chan struct{})
	jit := make([]uint64, len(plans))
	for i := range jit {
		jit[i] = r.Uint64()
	}
	for pi, p := range plans {
		wg.Add(1)
		go func(p plan, seed uint64) {
			defer wg.Done()
			jr := rand.New(rand.NewPCG(seed, 1))
			ends := map[[2]int]uint32{}
			var lastRes map[string]interface{}
			var lastStr string
			<-startGate
			for _, in := range p.ops {
				if jr.IntN(3) == 0 {
					runtime.Gosched()
				}
				in := in
				if lastRes != nil {
					// a query result is a value: it is read again while the other goroutines go on
					if now := fmt.Sprint(lastRes); now != lastStr {
						heldMu.Lock()
						changed = append(changed, [2]string{lastStr, now})
						heldMu.Unlock()
					}
				}
				switch in.Op {
				case "ingest":
					kk := [2]int{in.Flow, in.Node}
					ends[kk] += 5
					msg := agg.Message(mkRec(in.Flow, in.Node, 2000+ends[kk], in.Delta))
					rec.do(p.client, in, func() output { ap.AggregateMsgByFlowKey(msg); return output{} })
				case "scan":
					rec.do(p.client, in, func() output { return scanExport(ap) })
				case "resetall":
					rec.do(p.client, in, func() output { return walkAndReset(ap) })
				case "bad":
					rec0 := mkRec(in.Flow, 2, 2000, 1)
					rec0.Omit = map[string]bool{"sourceIPv4Address": true, "destinationIPv4Address": true, "sourceIPv6Address": true, "destinationIPv6Address": true}
					msg := agg.Message(rec0)
					rec.do(p.client, in, func() output { ap.AggregateMsgByFlowKey(msg); return output{} })
				case "hold":
					rec.do(p.client, in, func() output {
						ap.ForAllRecordsDo(func(intermediate.FlowKey, *intermediate.AggregationFlowRecord) error {
							time.Sleep(time.Duration(in.D) * time.Microsecond)
							return nil
						})
						return output{}
					})
				case "get":
					fk := agg.Keys[in.Flow].FlowKey()
					rec.do(p.client, in, func() output {
						rs := ap.GetRecords(&fk)
						if len(rs) == 0 {
							return output{}
						}
						lastRes, lastStr = rs[0], fmt.Sprint(rs[0])
						heldMu.Lock()
						held = append(held, heldRes{lastRes, lastStr})
						heldMu.Unlock()
						return output{Exists: true, Sum: sums(rs[0])}
					})
				case "num":
					rec.do(p.client, in, func() output { return output{N: ap.GetNumFlows()} })
				case "expiry":
					rec.do(p.client, in, func() output { ap.GetExpiryFromExpirePriorityQueue(); return output{} })
				case "shift":
					rec.do(p.client, in, func() output { ap.VerifShiftDeadlines(time.Duration(in.D) * time.Minute); return output{} })
				}
			}
		}(p, jit[pi])
	}
	close(startGate)
	wg.Wait()
	for _, h := range held {
		if now := fmt.Sprint(h.m); now != h.s {
			changed = append(changed, [2]string{h.s, now})
		}
	}
	c.Add("query_results_retained_and_read_again", int64(len(held)))
	if len(changed) > 0 {
		c.Violation(k, "query-result-changed-later", fmt.Sprintf("%d GetRecords results changed after they had been returned (a result is a value: later operations must not reach into it); first: returned %.300s ... later read as %.300s", len(changed), changed[0][0], changed[0][1]), nil)
	}
	// final quiescent reads join the history, so the final state is checked too
	for f := 0; f < nflows; f++ {
		fk := agg.Keys[f].FlowKey()
		rec.do(len(plans), input{Op: "get", Flow: f}, func() output {
			rs := ap.GetRecords(&fk)
			if len(rs) == 0 {
				return output{}
			}
			return output{Exists: true, Sum: sums(rs[0])}
		})
	}
	rec.do(len(plans), input{Op: "num"}, func() output { return output{N: ap.GetNumFlows()} })
	// overlap statistics
	ops := rec.ops
	overlap := 0
	for i := range ops {
		for j := i + 1; j < len(ops); j++ {
			if ops[i].Call <= ops[j].Return && ops[j].Call <= ops[i].Return {
				a, b := ops[i].Input.(input), ops[j].Input.(input)
				if a.Flow == b.Flow || a.Op == "scan" || b.Op == "scan" {
					overlap++
				}
			}
		}
	}
	res, info := porcupine.CheckOperationsVerbose(model, ops, 15*time.Second)
	c.Add("operations_recorded", int64(len(ops)))
	c.Add("overlapping_same_key_pairs", int64(overlap))
	switch res {
	case porcupine.Ok:
		c.Add("histories_linearizable", 1)
	case porcupine.Unknown:
		c.Inconclusive(fmt.Sprintf("history %d: porcupine timed out", k))
	case porcupine.Illegal:
		var lines []string
		sort.Slice(ops, func(i, j int) bool { return ops[i].Call < ops[j].Call })
		for _, o := range ops {
			lines = append(lines, fmt.Sprintf("client %d [%d,%d] %+v -> %+v", o.ClientId, o.Call, o.Return, o.Input, o.Output))
		}
		_ = info
		c.Violation(k, "not-linearizable", "porcupine found no sequential order of the recorded operations consistent with real time and the model", map[string]any{"corr_flows": corrFlow, "maxRetries": maxRetries, "history": lines})
	}
	if overlap > 0 {
		order := ""
		sort.Slice(ops, func(i, j int) bool { return ops[i].Call < ops[j].Call })
		for _, o := range ops {
			order += fmt.Sprintf("%d:%s;", o.ClientId, o.Input.(input).Op)
		}
		c.Nontrivial(hx.H64(k, order))
	}
	if k%500 == 0 && len(ops) > 0 {
		var lines []string
		for _, o := range ops[:min(len(ops), 12)] {
			lines = append(lines, fmt.Sprintf("client %d [%d,%d] %+v -> %+v", o.ClientId, o.Call, o.Return, o.Input, o.Output))
		}
		c.Sample(4, lines)
	}
}

func stressRun(c *hx.Ctx, k int, r *rand.Rand) {
	procs := []int{1, 2, 4, 16}[r.IntN(4)]
	runtime.GOMAXPROCS(procs)
	defer runtime.GOMAXPROCS(16)
	nprod := 1 + r.IntN(16)
	// only active expiry may ever happen: the inactive timeout (200000 h) is far beyond everything the
	// time-shift goroutine can accumulate (at most 20000 shifts of 61 min = 20333 h)
	ap := agg.NewProcess(A*time.Minute, 200000*time.Hour, 1, nil)
	for i := range corrFlow {
		corrFlow[i] = false
	}
	nIngest := c.Pick(600, 2000)
	type stream struct{ flow, node int }
	// streams over 8 flows: uncorrelated flows (one stream each) so that every flow is always ready
	var ingested [8]uint64
	var exported [8]uint64
	var expMu sync.Mutex
	exportsPerFlow := map[int]int{}
	var shifts atomic.Int64
	var wg sync.WaitGroup
	stop := make(chan struct{})
	seeds := make([]uint64, nprod+4)
	for i := range seeds {
		seeds[i] = r.Uint64()
	}
	// each producer owns the streams of the flows f with f % nprod == p
	for p := 0; p < nprod && p < 8; p++ {
		wg.Add(1)
		go func(p int) {
			defer wg.Done()
			pr := rand.New(rand.NewPCG(seeds[p], 2))
			end := uint32(2000)
			for i := 0; i < nIngest; i++ {
				for f := p; f < 8; f += min(nprod, 8) {
					end++
					d := pr.Uint64() >> uint(pr.IntN(64))
					rec := agg.Rec{Key: agg.Keys[f], Node: 'B', FlowType: 1, Start: 1000, End: end, EndReason: 2, Str: map[string]string{"sourcePodName": "s", "destinationPodName": "d"}}
					rec.Delta[agg.Pkt] = d
					rec.Total[agg.Oct] = uint64(end)
					if err := ap.AggregateMsgByFlowKey(agg.Message(rec)); err != nil {
						c.Violation(k, "aggregate-error", err.Error(), nil)
						return
					}
					atomic.AddUint64(&ingested[f], d)
					if pr.IntN(40) == 0 {
						// a record without addresses in between: it cannot belong to any of the eight flows and must not disturb them
						bad := rec
						bad.Omit = map[string]bool{"sourceIPv4Address": true, "destinationIPv4Address": true, "sourceIPv6Address": true, "destinationIPv6Address": true}
						ap.AggregateMsgByFlowKey(agg.Message(bad)) // (whether it says so with an error is not C13's business)
					}
				}
			}
		}(p)
	}
	var aux sync.WaitGroup
	aux.Add(3)
	go func() { // scanner: export and reset
		defer aux.Done()
		for {
			select {
			case <-stop:
				return
			default:
			}
			seen := map[int]bool{}
			ap.ForAllExpiredFlowRecordsDo(func(fk intermediate.FlowKey, rec *intermediate.AggregationFlowRecord) error {
				m := rec.Record.GetElementMap()
				fi := -1
				for i := 0; i < 8; i++ {
					if agg.Keys[i].FlowKey() == fk {
						fi = i
					}
				}
				if fi < 0 {
					return nil
				}
				if seen[fi] {
					c.Violation(k, "exported-twice-in-one-scan", fmt.Sprintf("flow %d handed to the callback twice in one scan", fi), nil)
				}
				seen[fi] = true
				s := sums(m)
				if s[0] != s[1] {
					c.Violation(k, "torn-record", fmt.Sprintf("flow %d: source and destination slots of a single-stream flow differ (%d vs %d)", fi, s[0], s[1]), nil)
				}
				expMu.Lock()
				exported[fi] += s[0]
				exportsPerFlow[fi]++
				expMu.Unlock()
				return ap.ResetStatAndThroughputElementsInRecord(rec.Record)
			})
			time.Sleep(200 * time.Microsecond)
		}
	}()
	for wk := 0; wk < 2; wk++ { // two walkers: ForAllRecordsDo reading the sums and resetting them (accounted as exports)
		aux.Add(1)
		go func() {
			defer aux.Done()
			for {
				select {
				case <-stop:
					return
				default:
				}
				ap.ForAllRecordsDo(func(fk intermediate.FlowKey, rec *intermediate.AggregationFlowRecord) error {
					fi := -1
					for i := 0; i < 8; i++ {
						if agg.Keys[i].FlowKey() == fk {
							fi = i
						}
					}
					if fi < 0 {
						return nil
					}
					s := sums(rec.Record.GetElementMap())
					expMu.Lock()
					exported[fi] += s[0]
					expMu.Unlock()
					return ap.ResetStatAndThroughputElementsInRecord(rec.Record)
				})
				time.Sleep(300 * time.Microsecond)
			}
		}()
	}
	go func() { // queries
		defer aux.Done()
		qr := rand.New(rand.NewPCG(seeds[nprod], 3))
		for {
			select {
			case <-stop:
				return
			default:
			}
			fk := agg.Keys[qr.IntN(8)].FlowKey()
			ap.GetRecords(&fk)
			ap.GetNumFlows()
			ap.GetExpiryFromExpirePriorityQueue()
		}
	}()
	go func() { // time passes
		defer aux.Done()
		for {
			select {
			case <-stop:
				return
			default:
			}
			if shifts.Load() < 20000 {
				ap.VerifShiftDeadlines((A + 1) * time.Minute)
				shifts.Add(1)
			}
			time.Sleep(time.Millisecond)
		}
	}()
	wg.Wait()
	close(stop)
	aux.Wait()
	// quiescence: conservation
	for f := 0; f < 8; f++ {
		fk := agg.Keys[f].FlowKey()
		rs := ap.GetRecords(&fk)
		var held uint64
		if len(rs) != 1 {
			c.Violation(k, "flow-lost", fmt.Sprintf("flow %d has %d records after the run", f, len(rs)), nil)
			continue
		}
		held = sums(rs[0])[0]
		if got, want := exported[f]+held, atomic.LoadUint64(&ingested[f]); got != want {
			c.Violation(k, "conservation", fmt.Sprintf("flow %d: ingested deltas sum to %d, exported %d + held %d = %d: a delta was lost or double-counted", f, want, exported[f], held, got), map[string]any{"producers": nprod, "gomaxprocs": procs})
		}
		if int64(exportsPerFlow[f]) > shifts.Load()+1 {
			c.Violation(k, "exported-more-often-than-deadlines", fmt.Sprintf("flow %d was exported %d times; only %d deadlines passed", f, exportsPerFlow[f], shifts.Load()+1), nil)
		}
	}
	if n := ap.GetNumFlows(); n != 8 {
		c.Violation(k, "num-flows", fmt.Sprintf("GetNumFlows() = %d after the run, 8 flows were fed", n), nil)
	}
	tot := 0
	for _, v := range exportsPerFlow {
		tot += v
	}
	c.Add("stress_runs", 1)
	c.Add("stress_ingests", int64(nIngest*8))
	c.Add("stress_exports", int64(tot))
	if tot > 0 {
		c.Nontrivial(hx.H64("stress", k, tot, nprod))
	}
}

func poolRun(c *hx.Ctx, k int, r *rand.Rand) {
	workers := 1 + r.IntN(16)
	intermediate.MaxRetries = 2
	ch := make(chan *entities.Message)
	ap, err := intermediate.InitAggregationProcess(intermediate.AggregationInput{MessageChan: ch, WorkerNum: workers, CorrelateFields: agg.CorrelateFields,
		AggregateElements: agg.Elements(), ActiveExpiryTimeout: A * time.Minute, InactiveExpiryTimeout: I * time.Minute})
	if err != nil {
		panic(err)
	}
	started := make(chan struct{})
	go func() { close(started); ap.Start() }()
	<-started
	nflows := 50 + r.IntN(400)
	keys := make([]agg.Key, nflows)
	for i := range keys {
		keys[i] = agg.Key{Src: fmt.Sprintf("10.%d.%d.1", i/250, i%250), Dst: "10.200.0.1", SPort: uint16(1000 + i), DPort: 80, Proto: 6}
	}
	// one source-node and one destination-node record per flow, in random global order
	type item struct {
		f    int
		node byte
	}
	var items []item
	for f := range keys {
		items = append(items, item{f, 'S'}, item{f, 'D'})
	}
	r.Shuffle(len(items), func(i, j int) { items[i], items[j] = items[j], items[i] })
	for _, it := range items {
		rec := agg.Rec{Key: keys[it.f], Node: it.node, FlowType: 2, Start: 1000, End: 2000 + uint32(it.f%7), EndReason: 2, Str: map[string]string{}}
		if it.node == 'S' {
			rec.Str["sourcePodName"] = fmt.Sprintf("s%d", it.f)
			rec.Delta[agg.Pkt] = uint64(it.f)*2 + 1
		} else {
			rec.Str["destinationPodName"] = fmt.Sprintf("d%d", it.f)
			rec.Delta[agg.Pkt] = uint64(it.f)*2 + 2
			rec.End += 3
		}
		rec.Total[agg.Pkt] = 5
		ch <- agg.Message(rec)
	}
	done := make(chan struct{})
	go func() { ap.Stop(); close(done) }()
	select {
	case <-done:
	case <-time.After(30 * time.Second):
		buf := make([]byte, 1<<16)
		n := runtime.Stack(buf, true)
		st := string(buf[:n])
		deadlock := strings.Contains(st, "intermediate.(*worker).stop") && strings.Contains(st, "addOrUpdateRecordInMap")
		c.Violation(k, "pool-stop-hang", fmt.Sprintf("Stop() of the worker pool (%d workers) did not return within 30 s after the last message was handed over (a worker blocked on the process mutex while Stop holds it: %v)", workers, deadlock), st[:min(len(st), 9000)])
		return
	}
	if n := ap.GetNumFlows(); int(n) != nflows {
		c.Violation(k, "pool-num-flows", fmt.Sprintf("%d flows after feeding %d distinct 5-tuples through %d workers", n, nflows, workers), nil)
		return
	}
	flows, heap, _ := ap.VerifSnapshot()
	if len(heap) != nflows {
		c.Violation(k, "pool-heap", fmt.Sprintf("%d queue entries for %d flows", len(heap), nflows), nil)
	}
	for _, f := range flows {
		if !f.ReadyToSend || !f.Filled || !f.HasItem {
			c.Violation(k, "pool-correlation-lost", fmt.Sprintf("flow %v: ready=%v filled=%v scheduled=%v after both sides were fed", f.Key, f.ReadyToSend, f.Filled, f.HasItem), nil)
			return
		}
	}
	for i, kk := range keys {
		fk := kk.FlowKey()
		rs := ap.GetRecords(&fk)
		if len(rs) != 1 {
			c.Violation(k, "pool-flow-missing", fmt.Sprintf("flow %d: %d records", i, len(rs)), nil)
			return
		}
		s := sums(rs[0])
		if s[0] != uint64(i)*2+1 || s[1] != uint64(i)*2+2 {
			c.Violation(k, "pool-delta", fmt.Sprintf("flow %d: delta sums %v, expected [%d %d]", i, s, i*2+1, i*2+2), nil)
			return
		}
		if rs[0]["sourcePodName"] != fmt.Sprintf("s%d", i) || rs[0]["destinationPodName"] != fmt.Sprintf("d%d", i) {
			c.Violation(k, "pool-merge", fmt.Sprintf("flow %d: pod names %v/%v after correlation", i, rs[0]["sourcePodName"], rs[0]["destinationPodName"]), nil)
			return
		}
		if e, _ := rs[0]["flowEndSeconds"].(uint32); e != 2000+uint32(i%7)+3 {
			c.Violation(k, "pool-end", fmt.Sprintf("flow %d: flowEndSeconds %d", i, e), nil)
			return
		}
	}
	c.Add("pool_runs", 1)
	c.Add("pool_flows", int64(nflows))
	c.Add("pool_workers", int64(workers))
	c.Nontrivial(hx.H64("pool", k, workers, nflows))
}

func main() {
	c := hx.New("C13")
	defer c.Finish()
	lib.Init()
	nLin := c.Pick(8000, 400000)
	nStress := c.Pick(16, 320)
	nPool := c.Pick(16, 320)
	total := nLin + nStress + nPool
	from, to := c.Range(total)
	for k := from; k < to; k++ {
		if k%c.NBatch != c.Batch {
			continue
		}
		r := c.Rand(k, 0)
		c.Journal(k, map[string]any{"kind": map[bool]string{true: "lin", false: "stress/pool"}[k < nLin]})
		c.Eval(1)
		switch {
		case k < nLin:
			linHistory(c, k, r)
		case k < nLin+nStress:
			stressRun(c, k, r)
		default:
			poolRun(c, k, r)
		}
		if c.NumViolations() > 20 {
			break
		}
	}
}

package main

// Driver for property C20, injected into package main of cmd/collector with
// `go test -overlay` (nothing is committed to the repository). It is a RECORDER: it runs
// histories of {message arrival, GET /records, POST /reset, invalid requests} against
// addIPFIXMessage / flowRecordHandler / resetRecordHandler and writes an event log
// (JSON lines) that the harness checks offline against the sliding-window model.

import (
	"encoding/json"
	"flag"
	"fmt"
	"io"
	"math/rand/v2"
	"net"
	"net/http/httptest"
	"os"
	"path/filepath"
	"strconv"
	"sync"
	"sync/atomic"
	"testing"
	"time"

	"k8s.io/klog/v2"

	"github.com/vmware/go-ipfix/pkg/entities"
	"github.com/vmware/go-ipfix/pkg/registry"
)

type c20Event struct {
	Ev      string        `json:"ev"`
	Hist    int           `json:"hist"`
	ID      uint32        `json:"id,omitempty"`
	Kind    string        `json:"kind,omitempty"`
	Records [][][3]string `json:"records,omitempty"` // per record: (name, rendering, kind) triples
	TFields [][3]string   `json:"tfields,omitempty"` // template: name, len, enterprise
	Method  string        `json:"method,omitempty"`
	URL     string        `json:"url,omitempty"`
	Code    int           `json:"code,omitempty"`
	Body    string        `json:"body,omitempty"`
	CType   string        `json:"ctype,omitempty"`
	Started int64         `json:"started,omitempty"` // concurrent phase: arrivals started when the request returned
	Done    int64         `json:"done,omitempty"`    // concurrent phase: arrivals completed when the request was issued
	Conc    bool          `json:"conc,omitempty"`
}

type c20Log struct {
	mu sync.Mutex
	f  *os.File
	en *json.Encoder
}

func (l *c20Log) write(e c20Event) {
	l.mu.Lock()
	l.en.Encode(e)
	l.mu.Unlock()
}

var c20Names = []struct {
	name string
	ent  uint32
}{
	{"sourceIPv4Address", 0}, {"destinationIPv6Address", 0}, {"sourceTransportPort", 0}, {"protocolIdentifier", 0}, {"octetDeltaCount", 0},
	{"flowStartSeconds", 0}, {"flowEndMilliseconds", 0}, {"sourceMacAddress", 0}, {"applicationId", 0}, {"interfaceName", 0},
	{"samplingProbability", 0}, {"dataRecordsReliability", 0}, {"ingressInterface", 0}, {"mplsTopLabelStackSection", 0},
	{"sourcePodName", 56506}, {"destinationServicePort", 56506}, {"ingressNetworkPolicyRulePriority", 56506}, {"flowType", 56506},
	{"destinationClusterIPv4", 56506}, {"reverseOctetDeltaCount", 29305}, {"tcpState", 56506}, {"throughput", 56506},
}

func c20Bytes(r *rand.Rand, n int) []byte {
	b := make([]byte, n)
	for i := range b {
		b[i] = byte(r.IntN(256))
	}
	return b
}

// c20Str: mostly lower-case letters; one string in three also carries characters that are special to some
// layer a renderer may put the value through (printf verbs, JSON and HTML escaping, quoting, multi-byte
// runes). No line breaks and no leading or trailing blanks: an entry is read line by line.
func c20Str(r *rand.Rand) string {
	n := r.IntN(24)
	b := make([]byte, n)
	for i := range b {
		b[i] = byte('a' + r.IntN(26))
	}
	s := string(b)
	if r.IntN(3) == 0 {
		sp := []string{"%", "%s", "%d%%", "100%", "%!v", "\\", "\"", "'", "<b>", "&amp;", "{}", "[x]", "\u00e9", "\u4e2d\u6587", "a b", "x=1", "k:v"}
		k := r.IntN(len(s) + 1)
		s = s[:k] + sp[r.IntN(len(sp))] + s[k:]
	}
	return s
}

// c20Value builds a value object for the element and the rendering a reader would expect.
func c20Value(r *rand.Rand, ie *entities.InfoElement) (entities.InfoElementWithValue, string, string) {
	switch ie.DataType {
	case entities.Unsigned8:
		v := uint8(r.IntN(256))
		return entities.NewUnsigned8InfoElement(ie, v), fmt.Sprintf("%v", v), "int"
	case entities.Unsigned16:
		v := uint16(r.IntN(65536))
		return entities.NewUnsigned16InfoElement(ie, v), fmt.Sprintf("%v", v), "int"
	case entities.Unsigned32:
		v := r.Uint32()
		return entities.NewUnsigned32InfoElement(ie, v), fmt.Sprintf("%v", v), "int"
	case entities.Unsigned64:
		v := r.Uint64()
		return entities.NewUnsigned64InfoElement(ie, v), fmt.Sprintf("%v", v), "int"
	case entities.Signed32:
		v := int32(r.Uint32())
		return entities.NewSigned32InfoElement(ie, v), fmt.Sprintf("%v", v), "int"
	case entities.Float64:
		v := float64(r.IntN(1000000)) / 1000
		return entities.NewFloat64InfoElement(ie, v), fmt.Sprintf("%v", v), "float"
	case entities.Boolean:
		v := r.IntN(2) == 0
		return entities.NewBoolInfoElement(ie, v), fmt.Sprintf("%v", v), "bool"
	case entities.DateTimeSeconds:
		v := r.Uint32()
		return entities.NewDateTimeSecondsInfoElement(ie, v), fmt.Sprintf("%v", v), "int"
	case entities.DateTimeMilliseconds:
		v := r.Uint64()
		return entities.NewDateTimeMillisecondsInfoElement(ie, v), fmt.Sprintf("%v", v), "int"
	case entities.MacAddress:
		v := net.HardwareAddr(c20Bytes(r, 6))
		return entities.NewMacAddressInfoElement(ie, v), fmt.Sprintf("%v", v), "mac"
	case entities.Ipv4Address:
		v := net.IP(c20Bytes(r, 4))
		return entities.NewIPAddressInfoElement(ie, v), fmt.Sprintf("%v", v), "ip"
	case entities.Ipv6Address:
		v := net.IP(c20Bytes(r, 16))
		return entities.NewIPAddressInfoElement(ie, v), fmt.Sprintf("%v", v), "ip"
	case entities.String:
		v := c20Str(r)
		return entities.NewStringInfoElement(ie, v), v, "str"
	case entities.OctetArray:
		v := c20Bytes(r, 1+r.IntN(12))
		// the rendering field carries the raw bytes in hex; the checker accepts any usual rendering of them
		return entities.NewOctetArrayInfoElement(ie, v), "octets:" + fmt.Sprintf("%x", v), "octets"
	}
	panic("c20 driver: unsupported type for " + ie.Name)
}

func c20Message(r *rand.Rand, id uint32, template bool) (*entities.Message, c20Event) {
	ev := c20Event{Ev: "arrive", ID: id}
	msg := entities.NewMessage(true)
	msg.SetVersion(10)
	msg.SetSequenceNum(id)
	msg.SetObsDomainID(r.Uint32())
	msg.SetExportTime(r.Uint32())
	msg.SetMessageLen(uint16(r.IntN(65536)))
	nf := 1 + r.IntN(8)
	perm := r.Perm(len(c20Names))[:nf]
	var ies []*entities.InfoElement
	for _, p := range perm {
		ie, err := registry.GetInfoElement(c20Names[p].name, c20Names[p].ent)
		if err != nil {
			panic(err)
		}
		ies = append(ies, ie)
	}
	// RFC 7011 allows an information element to occur more than once in a record: one message in three
	// repeats one of its elements (each occurrence is a field of the record and has its own value)
	if r.IntN(3) == 0 {
		d := ies[r.IntN(len(ies))]
		at := r.IntN(len(ies) + 1)
		ies = append(ies[:at], append([]*entities.InfoElement{d}, ies[at:]...)...)
	}
	set := entities.NewSet(true)
	if template {
		ev.Kind = "template"
		set.PrepareSet(entities.Template, 256)
		var el []entities.InfoElementWithValue
		for _, ie := range ies {
			v, _ := entities.DecodeAndCreateInfoElementWithValue(ie, nil)
			el = append(el, v)
			ev.TFields = append(ev.TFields, [3]string{ie.Name, strconv.Itoa(int(ie.Len)), strconv.Itoa(int(ie.EnterpriseId))})
		}
		set.AddRecordV2(el, 256)
	} else {
		ev.Kind = "data"
		set.PrepareSet(entities.Data, 256)
		nrec := 1 + r.IntN(3)
		for i := 0; i < nrec; i++ {
			var el []entities.InfoElementWithValue
			var pairs [][3]string
			if i == 0 {
				// the first field of the first record carries a unique marker: the entry of this message is
				// recognised by a field VALUE (which the property guarantees is shown), not by the header
				mie, _ := registry.GetInfoElement("appProtocolName", 56506)
				mv := fmt.Sprintf("vfid-%d-%s", id, c20Str(r))
				el = append(el, entities.NewStringInfoElement(mie, mv))
				pairs = append(pairs, [3]string{mie.Name, mv, "str"})
			}
			for _, ie := range ies {
				v, rendering, kind := c20Value(r, ie)
				el = append(el, v)
				pairs = append(pairs, [3]string{ie.Name, rendering, kind})
			}
			set.AddRecordV2(el, 256)
			ev.Records = append(ev.Records, pairs)
		}
	}
	msg.AddSet(set)
	return msg, ev
}

func c20Request(method, url string) (int, string, string) {
	req := httptest.NewRequest(method, url, nil)
	rw := httptest.NewRecorder()
	if len(url) >= 6 && url[:6] == "/reset" {
		resetRecordHandler(rw, req)
	} else {
		flowRecordHandler(rw, req)
	}
	return rw.Code, rw.Body.String(), rw.Header().Get("Content-Type")
}

func c20Env(name string, def int) int {
	if v := os.Getenv(name); v != "" {
		if n, err := strconv.Atoi(v); err == nil {
			return n
		}
	}
	return def
}

func TestVerifC20Driver(t *testing.T) {
	out := os.Getenv("VERIF_C20_LOG")
	if out == "" {
		t.Skip("VERIF_C20_LOG not set")
	}
	registry.LoadRegistry()
	kfs := flag.NewFlagSet("klog", flag.ContinueOnError)
	klog.InitFlags(kfs)
	kfs.Set("logtostderr", "false")
	kfs.Set("alsologtostderr", "false")
	kfs.Set("stderrthreshold", "FATAL")
	klog.SetOutput(io.Discard)
	os.MkdirAll(filepath.Dir(out), 0o755)
	f, err := os.Create(out)
	if err != nil {
		t.Fatal(err)
	}
	defer f.Close()
	lg := &c20Log{f: f, en: json.NewEncoder(f)}
	seed := uint64(c20Env("VERIF_SEED", 1))
	batch, nbatch := c20Env("VERIF_BATCH", 0), c20Env("VERIF_NBATCH", 1)
	from, n := c20Env("VERIF_C20_FROM", 0), c20Env("VERIF_C20_N", 1)
	longEvery := c20Env("VERIF_C20_LONG_EVERY", 13)
	var nextID uint32
	for h := from; h < from+n; h++ {
		r := rand.New(rand.NewPCG(seed*1000003+uint64(batch)<<20+uint64(nbatch), uint64(h)))
		lg.write(c20Event{Ev: "history", Hist: h})
		code, body, _ := c20Request("POST", "/reset")
		lg.write(c20Event{Ev: "req", Hist: h, Method: "POST", URL: "/reset", Code: code, Body: body})
		long := h%longEvery == longEvery-1
		conc := h%longEvery == 3
		if conc {
			c20Concurrent(lg, r, h, &nextID)
			continue
		}
		nops := 20 + r.IntN(300)
		if long {
			nops = 17000 + r.IntN(2000)
		}
		arrivals := 0
		for i := 0; i < nops; i++ {
			x := r.IntN(100)
			if long && i%2500 != 0 {
				x = 50 // mostly arrivals, so that the cap is exceeded several times
				if i%6000 == 5999 {
					x = 0 // a rare reset
				}
			}
			switch {
			case x < 2:
				code, body, _ := c20Request("POST", "/reset")
				lg.write(c20Event{Ev: "req", Hist: h, Method: "POST", URL: "/reset", Code: code, Body: body})
			case x < 70:
				nextID++
				msg, ev := c20Message(r, nextID, r.IntN(5) == 0)
				ev.Hist = h
				addIPFIXMessage(msg)
				lg.write(ev)
				arrivals++
			case x < 92:
				counts := []string{"", "0", "1", "2", "5", "17", strconv.Itoa(arrivals), "4095", "4096", "4097", "100000"}
				if long && i%2500 != 0 {
					counts = []string{"1", "2", "5"}
				}
				cs := counts[r.IntN(len(counts))]
				fm := []string{"", "json", "text"}[r.IntN(3)]
				url := "/records"
				sep := "?"
				if cs != "" {
					url += sep + "count=" + cs
					sep = "&"
				}
				if fm != "" {
					url += sep + "format=" + fm
				}
				code, body, ct := c20Request("GET", url)
				lg.write(c20Event{Ev: "req", Hist: h, Method: "GET", URL: url, Code: code, Body: body, CType: ct})
			default:
				bad := []struct{ m, u string }{
					{"GET", "/records?count=-1"}, {"GET", "/records?count=abc"}, {"GET", "/records?count=1.5"}, {"GET", "/records?count=%207"},
					{"GET", "/records?format=xml"}, {"GET", "/records?format=JSON"}, {"GET", "/records?count=3&format=yaml"},
					{"GET", "/records?count=99999999999999999999"}, {"POST", "/records"}, {"PUT", "/records?count=1"}, {"DELETE", "/records"},
					{"GET", "/reset"}, {"PUT", "/reset"}, {"DELETE", "/reset"},
				}
				b := bad[r.IntN(len(bad))]
				code, body, _ := c20Request(b.m, b.u)
				lg.write(c20Event{Ev: "badreq", Hist: h, Method: b.m, URL: b.u, Code: code, Body: body})
			}
		}
		// closing queries in both formats over the whole window
		for _, u := range []string{"/records?format=json", "/records?format=text", "/records?count=3&format=text", "/records?count=3"} {
			code, body, ct := c20Request("GET", u)
			lg.write(c20Event{Ev: "req", Hist: h, Method: "GET", URL: u, Code: code, Body: body, CType: ct})
		}
	}
}

// c20Concurrent: one writer, four readers and a resetter run concurrently (race detector).
func c20Concurrent(lg *c20Log, r *rand.Rand, h int, nextID *uint32) {
	var started, done atomic.Int64
	// fill the store to its cap first: trimming (which touches the oldest entry) then happens on every
	// arrival of the concurrent phase, while full-window queries are being answered
	for i := 0; i < maxFlowRecords; i++ {
		*nextID++
		msg, ev := c20Message(r, *nextID, false)
		ev.Hist, ev.Conc = h, true
		addIPFIXMessage(msg)
		lg.write(ev)
	}
	base := *nextID
	total := 600 + r.IntN(600)
	*nextID += uint32(total)
	seeds := []uint64{r.Uint64(), r.Uint64(), r.Uint64(), r.Uint64(), r.Uint64(), r.Uint64()}
	var wg sync.WaitGroup
	stop := make(chan struct{})
	wg.Add(1)
	go func() {
		defer wg.Done()
		wr := rand.New(rand.NewPCG(seeds[0], 1))
		for i := 1; i <= total; i++ {
			msg, ev := c20Message(wr, base+uint32(i), false)
			ev.Hist, ev.Conc = h, true
			started.Store(int64(i))
			addIPFIXMessage(msg)
			done.Store(int64(i))
			lg.write(ev)
		}
		close(stop)
	}()
	for g := 0; g < 4; g++ {
		wg.Add(1)
		go func(g int) {
			defer wg.Done()
			rr := rand.New(rand.NewPCG(seeds[1+g], 2))
			full := 0
			for {
				select {
				case <-stop:
					return
				default:
				}
				url := fmt.Sprintf("/records?count=%d&format=%s", 1+rr.IntN(40), []string{"json", "text"}[rr.IntN(2)])
				if g >= 2 { // two of the readers ask for the whole window (it reaches the oldest entry)
					if full >= 3 {
						return
					}
					full++
					url = []string{"/records?format=text", "/records?count=4096&format=json", "/records?count=5000&format=text", "/records"}[rr.IntN(4)]
					time.Sleep(3 * time.Millisecond)
				} else {
					time.Sleep(300 * time.Microsecond)
				}
				d := done.Load()
				code, body, ct := c20Request("GET", url)
				s := started.Load()
				lg.write(c20Event{Ev: "req", Hist: h, Method: "GET", URL: url, Code: code, Body: body, CType: ct, Conc: true, Started: s + int64(base), Done: d + int64(base)})
			}
		}(g)
	}
	wg.Add(1)
	go func() { // a rare reset: the store is at its cap for most of the phase
		defer wg.Done()
		rr := rand.New(rand.NewPCG(seeds[5], 3))
		for n := 0; n < 2; n++ {
			select {
			case <-stop:
				return
			case <-time.After(time.Duration(40+rr.IntN(200)) * time.Millisecond):
			}
			if rr.IntN(2) == 0 {
				code, body, _ := c20Request("POST", "/reset")
				lg.write(c20Event{Ev: "req", Hist: h, Method: "POST", URL: "/reset", Code: code, Body: body, Conc: true})
			}
		}
	}()
	wg.Wait()
}

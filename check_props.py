"""Per-property configuration of ./check (kept apart from the driver for readability).

race: build with the Go race detector        nb: (quick, thorough) child batches
par: children run concurrently               to: (quick, thorough) per-child wall watchdog, seconds;
min_e / min_n: minimum observation thresholds   its firing is *inconclusive*, never a violation
"""

def P(race, nb, par, to, min_e, min_n, level, rule, assumptions, technique, **kw):
    d = dict(race=race, nb=nb, par=par, to=to, min_e=min_e, min_n=min_n, level=level, rule=rule,
             assumptions=assumptions, technique=technique)
    d.update(kw)
    return d

COMMON_ASSUME = [
    "verdicts are about the executions produced in this run only",
    "refipfix (own RFC 7011 reader/encoder, stdlib only) is correct; it is self-tested at start-up",
]

PROPS = {
    "C15": P(False, (8, 16), 16, (600, 3000), 50000, 20000, "exploration",
             "one evaluation = one (element, value) pushed through GetLength / record encoding / direct decode, and through the collector's "
             "decoder with a sentinel field behind it; distinct by (element, payload bytes); every value is non-trivial. Exhaustive for "
             "unsigned8/signed8/unsigned16/signed16/boolean and for every string/octetArray length in 0..300 and 65500..65535; boundary "
             "pools + PRNG for wider types; fixed-length octet arrays 0..64 and 65534.",
             COMMON_ASSUME + ["micro/nanosecond timestamps and list types are declared unsupported by the library and are not generated"],
             "runtime monitor: differential codec oracle (refipfix) over exhaustive + PRNG values, panic capture"),
    "C16": P(False, (8, 16), 16, (600, 3000), 10000, 5000, "exploration",
             "one evaluation = one random operation sequence over {PrepareSet, AddRecord, AddRecordWithExtraElements(k), AddRecordV2, "
             "UpdateLenInHeader, ResetSet} applied in lockstep to four set objects (one per add path + one mixed, long-lived, reused through "
             "ResetSet across the whole batch) and to a fresh set replaying the operations since the last reset; after EVERY operation: "
             "reported length == 4 + sum(record lengths) == serialised bytes - 16, record buffer == reported length == reference encoding, "
             "CreateIPFIXMsg output == refipfix encoding byte for byte. Non-trivial = contains a reset followed by adds, or >= 2 add paths; "
             "distinct by hash of the operations with their values.",
             COMMON_ASSUME, "runtime monitor: lockstep differential of the three add paths + fresh replay + reference length/byte model after every op"),
}

LEVEL_TEXT = {
    "C16": "Held on every operation sequence explored (random, well-formed order), with the invariants evaluated after every single "
           "operation rather than at the end. Exploration is the right level: the builders are deterministic, sequential code whose state "
           "space is driven entirely by the operation sequence.",
    "C15": "Held on every value explored: exhaustive for 8/16-bit types, booleans and the string/octetArray length boundaries, sampled "
           "(boundary pools + PRNG) for wider types. A differential oracle with an independent codec is the right level for a pure "
           "function of (type, value): any asymmetric or symmetric codec error shows up as a byte or value mismatch.",
}
LEVEL_NOTE = {
    "*": "Trusts refipfix (own RFC 7011 codec, stdlib only), the Go runtime's bounds checks surfacing as panics, and the generator's coverage as reported in the evidence.",
}
NOT_APPLICABLE = {}

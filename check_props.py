"""Per-property configuration of ./check (kept apart from the driver for readability).

race: build with the Go race detector        nb: (quick, thorough) child batches
par: children run concurrently               to: (quick, thorough) per-child wall watchdog, seconds;
min_e / min_n: minimum observation thresholds   its firing is *inconclusive*, never a violation
"""

def P(race, nb, par, to, min_e, min_n, level, rule, assumptions, technique, **kw):
    d = dict(race=race, nb=nb, par=par, to=to, min_e=min_e, min_n=min_n, level=level, rule=rule,
             assumptions=assumptions, technique=technique)
    d.update(kw)
    return d

ONE_MSG = ("one successful SendSet puts exactly one message on the wire (C08's statement): the harness correlates what the "
           "application supplied with what is captured message by message")
COMMON_ASSUME = [
    "verdicts are about the executions produced in this run only",
    "refipfix (own RFC 7011 reader/encoder, stdlib only) is correct; it is self-tested at start-up",
]

import json as _json, os as _os, subprocess as _sp

def _c20_build(work, race):
    """Builds cmd/collector's test binary with the in-package driver injected through -overlay."""
    repo = _os.environ.get("VERIF_REPO", "/repo")
    here = _os.path.dirname(_os.path.abspath(__file__))
    ov = _os.path.join(work, "c20_overlay.json")
    _json.dump({"Replace": {_os.path.join(repo, "cmd/collector/zz_verif_c20_driver_test.go"): _os.path.join(here, "overlay/c20_driver_test.go")}}, open(ov, "w"))
    out = _os.path.join(work, "c20driver.test")
    env = dict(_os.environ, GOFLAGS="-mod=mod", GOPROXY="off", GOSUMDB="off", GOTOOLCHAIN="local")
    cmd = ["go", "test", "-c", "-vet=off", "-tags", "verif", "-overlay", ov, "-o", out] + (["-race"] if race else []) + ["./cmd/collector"]
    r = _sp.run(cmd, cwd=repo, env=env, stdout=_sp.PIPE, stderr=_sp.STDOUT, text=True)
    if r.returncode != 0:
        print(r.stdout)
        print("BUILD-FAILED property=C20 (driver overlay build)")
        return False
    PROPS["C20"]["env"] = {"VERIF_C20_DRIVER": out}
    return True

PROPS = {
    "C15": P(False, (8, 16), 16, (600, 3000), 50000, 20000, "exploration",
             "one evaluation = one (element, value) pushed through GetLength / record encoding / direct decode, and through the collector's "
             "decoder with a sentinel field behind it; distinct by (element, payload bytes); every value is non-trivial. Exhaustive for "
             "unsigned8/signed8/unsigned16/signed16/boolean and for every string/octetArray length in 0..300 and 65500..65535; boundary "
             "pools + PRNG for wider types; fixed-length octet arrays 0..64 and 65534.",
             COMMON_ASSUME + ["micro/nanosecond timestamps and list types are declared unsupported by the library and are not generated"],
             "runtime monitor: differential codec oracle (refipfix) over exhaustive + PRNG values, panic capture"),
    "C16": P(False, (8, 16), 16, (600, 3000), 10000, 5000, "exploration",
             "one evaluation = one random operation sequence over {PrepareSet, AddRecord, AddRecordWithExtraElements(k), AddRecordV2, "
             "UpdateLenInHeader, ResetSet} applied in lockstep to four set objects (one per add path + one mixed, long-lived, reused through "
             "ResetSet across the whole batch) and to a fresh set replaying the operations since the last reset; after EVERY operation: "
             "reported length == 4 + sum(record lengths) == serialised bytes - 16, record buffer == reported length == reference encoding, the "
             "4-byte set header == the fresh replay set's (id written by PrepareSet; length field current or as of the last "
             "UpdateLenInHeader), CreateIPFIXMsg output == refipfix encoding (set length field: as in the header or the true length) and "
             "identical for all add paths. Non-trivial = contains a reset followed by adds, or >= 2 add paths; "
             "distinct by hash of the operations with their values.",
             COMMON_ASSUME, "runtime monitor: lockstep differential of the three add paths + fresh replay + reference length/byte model after every op"),
    "C02": P(False, (8, 16), 16, (900, 3600), 4000, 2000, "exploration",
             "one evaluation = one message captured at a raw TCP or UDP peer socket (IPv4 and IPv6 loopback) from a real exporting process; "
             "it must parse strictly with refipfix (version 10, header length == bytes captured, exactly one set covering the rest, set id 2 / "
             "template id), template records must match the elements sent (id, enterprise bit+number, length), data sets must split under the "
             "template previously parsed FROM THE WIRE into exactly the values handed to SendSet, and the set content must equal refipfix's own "
             "encoding byte for byte (RFC 7011 3.3.2 set padding - zero octets shorter than the shortest record - is not a difference; TCP streams "
             "are cut at the messages' own length fields, and bytes in excess of them are seen by the next parse). Templates of 1..40 elements from the IANA/reverse/Antrea registries plus a user-registered enterprise; "
             "1..fit records; one TCP case in six aims at the 65535-byte limit (messages of 65500..65560 bytes: above the limit SendSet must refuse, and "
             "whatever reaches the wire must still be one well-formed message); one case in 400 is a UDP session with the 1 s template refresh "
             "whose templates mix forward IANA elements with their reverse (29305) twins sharing element ids: every refresh datagram must be "
             "the template sent under that id, byte for byte. Non-trivial = data message with >= 1 record or template with >= 1 enterprise "
             "field; distinct by message body.",
             COMMON_ASSUME + [ONE_MSG] + ["UDP sends that the kernel refuses for datagram size are outside the library's control and only counted"],
             "runtime monitor: independent RFC 7011 decoder/encoder over bytes captured at a raw peer socket"),
    "C08": P(False, (8, 16), 16, (900, 3600), 300, 100, "exploration",
             "one evaluation = one session of a real exporting process against a raw TCP (3/4) or UDP (1/4) peer, IPv4 and IPv6: a random "
             "history of 20..80 successful template/data SendSet calls with 1..400 records; one third of the sessions start 1..600 records "
             "below 2^32 (VerifSetSeqNumber hook) and cross the wrap. Every captured message: seq == running data-record count incl. this "
             "message mod 2^32 (templates do not advance it), configured observation domain, export time inside the wall-clock-second "
             "interval sampled around the call, what arrives per call == one message (cut at its own length field) of exactly the byte count SendSet reported; nothing else at the peer at the end. "
             "One session in 16 is a UDP session with the 1 s template refresh running concurrently with 2.3 s of application sends (half of them "
             "starting just below 2^32): the rule is checked in capture order on every datagram, whoever sent it. "
             "Non-trivial = a template between data messages, or the wrap crossed; distinct by hash of the (kind, record count) list. ALSO: One session in 16 has two goroutines sending on one exporting process against a peer that does not read for 2.2 s: the second goroutine's message must carry the second of its sending (not before the peer resumed), and sequence numbers hold in stream order. ALSO: one session in 16 is a plain-UDP session whose peer socket is closed and bound again on the same port (a collector restart; the kernel reports ICMP port-unreachable on a later send): from the first failed SendSet on the session is outside the statement and only counted; while every call succeeds, each data message reaching the new peer must carry the record count of ALL successful calls.",
             COMMON_ASSUME + ["failed sends are outside C08's statement and are not generated here"],
             "runtime monitor: running-count model over headers parsed from bytes captured at a raw peer"),
    "C09": P(False, (8, 16), 16, (900, 3600), 300, 100, "exploration",
             "one evaluation = one history of 12..42 sends on a real exporting process against a raw peer (TCP 4/5, UDP 1/5), mixing valid sends "
             "with unknown template ids, wrong field counts (one record of several), an undefined set type, messages of every length "
             "65519..65540, and ill-typed values (IPv6 in ipv4Address, wrong-length IPs, MAC shorter/longer than 6, fixed octetArray of the "
             "wrong length) in one field of one record. Must-refuse sends must return an error; after each one a marker message is "
             "sent and must be the next thing the peer sees; the same refused set object is re-sent 0..2 times (an application retry) and must be "
             "refused again; accepted messages must equal refipfix's encoding of the supplied values. "
             "Non-trivial = a refused send followed by an accepted one; distinct by hash of the send classes. A second exporting process of the same program (own peer, own domain, the template ids every process starts with) sends 20-30 KB messages for the whole batch: what this process transmits must not depend on it.",
             COMMON_ASSUME + [ONE_MSG] + ["an IPv4 address supplied for an ipv6Address element is not judged (net.IP treats it as its ::ffff: form)",
                              "a data set whose template send itself failed is a gray zone and is not generated"],
             "runtime monitor: expected-stream model (concatenation of accepted messages) over bytes captured at a raw peer, marker messages"),
    "C03": P(False, (8, 16), 16, (1200, 5400), 100000, 50000, "exploration",
             "one evaluation = one byte string presented (VerifDecodePacket hook) to a fresh collecting process in one of the 3 decoding modes "
             "after it was put into a template state {none, natural (with unknown elements in lenient modes), zero fields, zero-length unknown "
             "elements, all variable-length, 1-byte fields, signed64, wide fixed, reduced-size, replaced, invalidated, 200..2000 fields, "
             "template id < 256}. Inputs: random bytes (0..65535), grammar (valid header + set header + PRNG body sized around record "
             "multiples), valid data/template messages mutated (every truncation offset of short messages, tail truncations, extension and "
             "in-set padding by 1..9 bytes, bit flips, message/set length edits, set id edits, 0xFF/0x00 byte sets hitting length prefixes, "
             "version edits). Monitors: panic capture; CPU-time (5 CPU-s) and heap-growth (384 MiB) budget per call; exactness oracle: a "
             "delivered data message must equal refipfix's split of the body under the template in force (padding < shortest record), a "
             "delivered template must match the wire's ids/enterprise numbers. Non-trivial = version 10 and >= 20 bytes (reaches set "
             "decoding); distinct by (mode, state, input bytes). Each batch ends with a phase that sends 3000 (thorough 60000) such inputs through the "
             "REAL UDP and TCP handlers (sockets, goroutines): a panic there kills the child and is attributed by the front-end, and a valid "
             "probe sent afterwards from the same socket / a fresh connection must still be delivered. ALSO: A third of the lenient-mode states add sibling templates (other domain / id, before and after the template in force) that carry its unknown elements at other widths.",
             COMMON_ASSUME + ["an error return is always acceptable for C03", "not judged for exactness (still for totality): known elements announced with a non-registry length, "
                              "messages whose header/set length disagree with the bytes presented, set ids < 256, bytes after the first template record"],
             "runtime monitor: panic/CPU/heap budget monitors + reference-decoder oracle over hostile inputs x template states x modes"),
    "C04": P(False, (8, 16), 16, (1200, 5400), 50000, 20000, "exploration",
             "one evaluation = one history of template (layouts A/B[/C/D], differing in width and field count) / bad template (truncated "
             "specifier list, unsupported-type element, strict-mode unknown element, field count beyond the specifiers) / data (A- or "
             "B-shaped, or random bodies) messages over several (domain, id) keys, presented to one collecting process (tcp flavour, and udp "
             "flavour with a frozen injected clock). After every message: accepted iff the model has a valid template in force and the body "
             "splits under it; delivered records == refipfix's reading under the model's layout; collector's template table (hook) == "
             "model's keys and element lists (a zero-field or reduced-size template may be held or not). Exhaustive: all 15^4 (quick) / 15^5 (thorough) words over 3 keys; plus random histories of "
             "length 6..40 over 2 domains x 4 ids in all 3 modes, with 6 layouts including a pair of the same shape that differs only in the "
             "enterprise number, and (lenient modes) the same unknown element announced with a different length in every layout; delivered "
             "field names must be those of the template in force. Non-trivial = a data set after >= 2 template-affecting ops on related keys. ALSO: The bad-template symbol has a fourth, gray variant (a variable-length registry element announced with a fixed length): its own key is then not judged, every other key sharing the element is. Acceptance is three-valued (must / must not / free: non-zero leftover bytes, gray and opaque keys). Export times of the messages vary with their content and are not monotonic (a replacement may carry an earlier export time than what it replaces).",
             COMMON_ASSUME + ["a template set cut inside its 4-byte (id, count) header is not generated (gray zone)"],
             "runtime monitor: reference template-table model + table snapshot comparison after every message; bounded-exhaustive + random histories"),
    "C17": P(True, (8, 16), 16, (1200, 5400), 20000, 10000, "exploration",
             "one evaluation = one (template mixing known and unknown elements, 1..4 records, decoding mode): wire bytes from refipfix, "
             "presented to ONE long-lived collecting process per mode (unknown ids drawn half of the time from a small pool, so the same unknown "
             "element recurs with different lengths under different template ids), plus a twin without the unknown fields. Strict must reject template and data; "
             "keep must deliver every unknown field as a nameless octetArray holding exactly the wire bytes (fixed 1..420 and variable with "
             "1- and 3-byte prefixes); drop must omit exactly the unknown fields; in keep/drop every known field must equal the encoded "
             "value AND the twin's value, with its registry name. Enumerated: 1..4 known fields x every multiset of <= 3 insertion slots "
             "(repeated with fresh values); random: 1..11 known fields, 1..3 unknown (IANA absent ids, unknown enterprises, unknown ids in "
             "known enterprises). Every evaluation is non-trivial (>= 1 unknown and >= 1 known field); distinct by (mode, fields, values). ALSO: In strict mode the rejected template is also presented under the id of the twin, which holds a valid template then: data fitting the older definition must be rejected as well.",
             COMMON_ASSUME + ["zero-length unknown elements belong to C03's degenerate templates"],
             "runtime monitor: differential decoding (with vs without unknown fields) x 3 modes against refipfix-encoded wire bytes"),
    "C10": P(True, (16, 16), 16, (1200, 7200), 10000, 2000, "exploration",
             "one evaluation = one schedule over {T template/refresh/replacement, B bad template, D data, Adv(TTL/2|TTL|...), P1(j) start "
             "fired timer callback j up to its clock read, P2(j) finish it, C(j,op) finish it CONCURRENTLY with op} on a udp collecting process "
             "running on an injected virtual clock with time.AfterFunc semantics (fired-but-pending callbacks included). After every "
             "operation: table against a three-valued lifetime model (before last refresh + TTL the template MUST be stored and data accepted; once "
             "the callback fired for that very deadline has completed, or after an invalidation, it MUST be gone and data refused; in between "
             "either is accepted and the model follows the observation), stored expiry == last refresh + TTL, every stored "
             "template has exactly one timer that is armed at its expiry or has a callback in flight, no armed timer without a template; "
             "every schedule ends with a drain after which the table and the timer registry must be empty. Exhaustive: all words to the "
             "stated depth (no-op symbols pruned); random: length <= 40 over 3 keys. Non-trivial = a refresh/replacement/invalidation ran "
             "while a callback for that key was fired-but-unfinished; distinct by the schedule.",
             COMMON_ASSUME + ["time.AfterFunc's documented Stop/Reset semantics are modelled by vclock, not observed on the real runtime timer"],
             "runtime monitor: injected virtual clock with controllable callback placement + lifetime model + timer-registry invariants; race detector"),
    "C11": P(True, (16, 16), 16, (1500, 7200), 2000, 1000, "exploration",
             "one evaluation = one (byte stream, segmentation) over one TCP connection to a real collecting process: the stream concatenates "
             "2..7 template/data messages, optionally with one invalid message at any position (unknown template id, unknown element in strict "
             "mode, wrong version, header length < 16, record truncated inside the message, header length beyond the bytes that follow); it is "
             "written in chunks at the given cut points (TCP_NODELAY, 150-400 us pauses). Deliveries for the connection's observation domain "
             "must be exactly the frames refipfix cuts at the header lengths, up to and excluding the first frame the template model rejects, "
             "each matching refipfix's reading; after that frame the collector must close the connection (client sees EOF/RST) and deliver "
             "nothing more; a long-lived healthy connection sending a message every 0.5 ms for the whole batch must lose and reorder nothing. "
             "Exhaustive: every single and double cut point of short streams (seed-independent); random: 0..20 cuts, 1-byte-at-a-time, "
             "all-in-one. Non-trivial = >= 1 cut strictly inside a message; distinct by (stream, cut set). ALSO: A seventh kind of invalid message is an undecodable data record for the (domain, template) the long-lived healthy connection works with: that connection must not be closed and must lose nothing. An eighth kind is a runt: a message complete by its own length field (0..15) and shorter than a header, as the last bytes of a stream whose client stays connected; the connection must be closed.",
             COMMON_ASSUME + ["the kernel may coalesce chunks despite TCP_NODELAY and pauses: the segmentation written is recorded, the one the collector's reads saw is not observable without a hook",
                              "'connection closed' is decided with a 15 s wall-clock bound (normal: < 1 ms)"],
             "runtime monitor: own framer + reference decoder over real TCP connections with controlled segmentation; race detector"),
    "C01": P(True, (8, 16), 16, (1500, 7200), 1500, 1000, "exploration",
             "one evaluation = one template (fresh id, 1..40 elements from the IANA/reverse/Antrea registries + a user-registered enterprise "
             "supplying signed8/16/64, float32 and fixed-length octetArray) + one data set (1 record .. as many as fit one message; boundary "
             "pools for every type; variable lengths 0/1/254/255/256 and beyond) sent by a real exporting process to a real collecting process "
             "over one of 8 transport configurations {tcp, udp, tls, dtls} x {127.0.0.1, ::1} (tls6 with client certificates; certificates "
             "generated per run). What arrives on GetMsgChan() must carry the configured observation domain, the same fields (id, enterprise, "
             "type, length, name; order), the same number of records and bit-identical values. tcp/tls: every successful send must be "
             "delivered; udp/dtls: datagrams may be lost, a case is re-sent up to 3 times and delivery is required for messages <= 8000 bytes. "
             "Every 16th case the exporter is replaced by a new exporting process of the same observation domain on the same long-lived "
             "collector (its template ids restart at 256, so earlier ids are redefined), and every delivered message object is retained and "
             "re-read after the next deliveries: its content must not change once delivered. "
             "Non-trivial = delivered and (>= 2 fields or >= 2 records or a boundary length); distinct by (config, elements, values). ALSO: Every 24th plain-UDP case is followed by a burst: 34..44 (template, data) pairs sent back to back while the collector's consumer stands still, which must then come out in the order sent, each exact (a second burst must be complete if the first lost a datagram). The stream collectors run with TemplateTTL 1 s; one stream case in 97 sends its records again after 1.3 s of silence (template lifetimes are a matter of UDP). In a burst, loss and deliveries not attributable to the burst are not judged.",

             COMMON_ASSUME + [ONE_MSG] + ["pion/dtls drops records above its 8 KiB receive buffer while Write succeeds: larger DTLS messages are sent, compared if they arrive, only counted if not",
                              "a 65535-byte value cannot travel end to end (header + set header + prefix leave 65512): that boundary is C15's and C09's"],
             "runtime monitor: sent-vs-delivered comparison over real sockets on 8 transport configurations; race detector"),
    "C12": P(True, (16, 16), 16, (1800, 7200), 60, 20, "exploration",
             "one evaluation = one run of a real collecting process (tcp / tls / udp) with 1..64 concurrent raw clients, each sending a "
             "template and 0..200 uniquely numbered messages (domain = client, counter in header, in a field and in an octetArray field; delivered "
             "message objects are re-read after later deliveries and must not have changed) with pacing jitter, abrupt "
             "closes mid-message, a consumer with random pauses that never stops draining, GOMAXPROCS in {1,2,4,16}, and Stop() during "
             "traffic in half of the runs. Offline checks over the event log: no duplicate delivery, nothing delivered that was not written, "
             "per-client order (over tcp/tls also no gap), every acknowledged message of a gracefully closed tcp/tls connection delivered "
             "(runs without early Stop), GetNumConnToCollector() back to 0, Stop returns (30 s bound, normal ms), afterwards no goroutine with "
             "a pkg/collector frame and this process owns no socket on the collector's port (/proc/self/fd against /proc/self/net/*); race detector reports with a go-ipfix frame are "
             "violations. Non-trivial = deliveries of >= 2 clients interleaved; distinct by hash of the delivery interleaving. ALSO: Clients stuck mid-message, and over tls peers stuck in the middle of the handshake, keep their connections open until Stop has returned; a third of the larger datagram clients send a burst of 40+ datagrams past the pacing while the consumer stands still (order must hold). Alongside the cases every datagram batch (udp4/6, dtls4/6) runs one refresh session of its own: 3-5 templates, exporter refresh interval 1 s, template lifetime 3 s at the collector, 4.2 s of silence, then one data record per template must be delivered as sent (not-delivered-after-refresh; confirmed on a second fresh session before it is reported).",
             COMMON_ASSUME + ["the goroutine that calls Stop() first waits for GetAddress() != nil (the only readiness signal the API offers)",
                              "udp runs where fewer than half of the datagrams are delivered are inconclusive, not held", "DTLS is excluded by the property"],
             "runtime monitor: offline exactly-once/order checker over a recorded event log + goroutine/socket leak probes; race detector; GOMAXPROCS sweep"),
    "C14": P(True, (16, 16), 16, (1800, 7200), 100, 40, "exploration",
             "one evaluation = one exporter session; 8 sessions of 3 kinds run concurrently per group. refresh: UDP exporter with the 1 s "
             "minimum refresh interval against a raw UDP peer, one application goroutine sending 1..4 templates (one more mid-run in half of "
             "the sessions) and paced data (bursts / 0-2 ms gaps / idle) for 4.3 s: every datagram exactly one well-formed message, application "
             "messages unaltered and in order, every refresh copy equal to the original template, per-template refresh counts within 1 of each "
             "other (sequence numbers under refresh are C08's business and checked there); zero refresh copies after 4 and then 8 intervals "
             "is a violation. backpressure: a TCP peer that accepts but does not read until the sender has been stuck for 300 ms, CheckConnInterval "
             "20 ms, 600-1200 sends of 8-12 KB: every SendSet must succeed and the drained stream must be exactly the application's messages. jsonrefresh: the same with SendJSONRecord: the peer must see exactly the application's JSON documents, in order, and "
             "nothing else across two refresh ticks. peerclose: TCP exporter, CheckConnInterval 25 ms, peer closes, silent wait 1/2/4 s, the first SendSet must "
             "fail. close: CloseConnToCollector from 1..8 goroutines twice each while the application goroutine sends: returns (30 s bound), "
             "SendSet after it fails, peer stream == acknowledged sends (+ at most one failed send or a prefix of it), well-formed datagrams. "
             "At the end no goroutine with a pkg/exporter frame may remain. Non-trivial = application data fell between two datagrams of one "
             "refresh round / close noticed / a Close raced acknowledged sends. ALSO: A quarter of the refresh sessions keep announcing new templates every 0.3-0.7 s: the templates of the start must still be refreshed. One backpressure session in 16 stalls for 6.5 s (beyond any send timeout): there sends may fail and the application goes on sending; what reaches the peer must be whole application messages in order, every successful send among them, a partial message only as the last thing ever written. One refresh session in 3 is a storm: 150-250 templates (a refresh round takes milliseconds) and one burst of 4-9 NEW templates announced while the first round is on the wire, then none. In every refresh session: between a template's announcement, its refresh copies and the end of the capture (arrival times at the peer) no gap may exceed 2.5 intervals; such a session is repeated as a fresh session of the same kind observed twice as long, and template-not-refreshed is reported only if a template goes without a copy for 4 intervals there as well.",
             COMMON_ASSUME + [ONE_MSG] + ["rounds are recognised structurally (a template id repeating starts a new round), not by wall-clock gaps",
                              "loss of a datagram on loopback makes a refresh session inconclusive"],
             "runtime monitor: per-datagram parser + refresh-round model + prefix-of-acknowledged-sends model at a raw peer; goroutine leak probe; race detector"),
    "C05": P(False, (8, 16), 16, (1200, 5400), 8000, 4000, "exploration",
             "one evaluation = one history of 6..45 operations {record for (flow, reporting node), reset(flow) through ForAllRecordsDo + "
             "ResetStatAndThroughputElementsInRecord, expire-and-recreate everything} over 2..6 of six 5-tuples (3 IPv4, 3 IPv6, two differing "
             "only in a port) on a real AggregationProcess; flow types intra/inter/to-external/from-external, all rule-action pairs (so "
             "correlated and single-stream flows), records generated under the stated exporter contract (per node end times strictly "
             "increasing, totals non-decreasing, end > start) in two labelled families: coherent (globally increasing end times and totals: "
             "exact oracle for the common totals) and skewed (independent per-node streams: accept-set for the common totals, ties in end "
             "time accept either node). After EVERY operation: touched flow == reference aggregator field by field (per-node end, totals, "
             "delta sums since reset mod 2^64, throughput = 8*growth/dt with the first-record convention of the suite; common end, totals, "
             "deltas, throughput and tcpState following the node with the latest end time; flow identity), every other flow unchanged "
             "(deep comparison of all fields), GetNumFlows == live 5-tuples, reset changes delta/throughput fields only. Non-trivial = >= 2 "
             "records on one flow; distinct by hash of the history. ALSO: In half of the flows the two reporting nodes see the flow start in different seconds. One record operation in three travels in ONE MESSAGE with a record of a seventh flow (the companion: one reporting stream, own 5-tuple), before or after it; both flows are then compared with the model, all others must be unchanged.",
             COMMON_ASSUME + ["totals stay below 2^60 (octet growth >= 2^61 between two records would overflow the library's 64-bit product; not generated)",
                              "flowEndReason stickiness and httpVals merging are not in the statement and are not asserted",
                              "contract-violating inputs (out-of-order records of one node) are outside the statement and are not generated"],
             "runtime monitor: reference aggregator (from the statement, with accept-sets where it is silent) compared after every operation"),
    "C06": P(False, (8, 16), 16, (1200, 5400), 50000, 20000, "fault_enumeration",
             "one evaluation = one history over {Rec(k), Adv(A/2|A|I|A+I) (virtual time: VerifShiftDeadlines hook; A=100 min, I=60 min), "
             "Scan(callback fails on a chosen set of keys)} on a real AggregationProcess with always-ready (intra-node) flows. After EVERY "
             "operation (VerifSnapshot hook, under the process's own mutex): every held flow has exactly one queue entry whose index, key "
             "and back-reference match, every queue entry refers to a held flow, heap order holds, deadlines == model (active set at "
             "creation and re-armed after an active export, inactive pushed back by every record), advertised time to next expiry == "
             "MinExpiryTime + (earliest - now). Every scan: callbacks only for flows with a passed deadline, all of them when no callback "
             "fails, ascending deadline order (ties free), none twice, inactive expiry removes / active expiry keeps and re-arms; after a "
             "failed callback the flow must still be held and scheduled. Exhaustive: all words to the stated depth over 2 (and 3) keys "
             "with every failing-key set; random: length <= 60 over 8 keys. Non-trivial = >= 1 scan with >= 1 callback; distinct by the word. Every third record operation of a history travels in one message together with a record of the next key.",
             COMMON_ASSUME + ["a history runs in microseconds of real time while deadlines are minutes apart, so real-time comparisons in the code agree with the virtual-minute model"],
             "runtime monitor: deadline model + structural invariants of map/heap at a hook after every operation; injected callback failures; bounded-exhaustive + random histories"),
    "C07": P(False, (8, 16), 16, (1200, 5400), 50000, 10000, "exploration",
             "one evaluation = one (flow type, egress action, ingress action, MaxRetries in {0,1,2}, word over {S record from the source "
             "node, D record from the destination node, Ea advance past the active deadline + scan, Ei advance past both deadlines + scan}, "
             "PRNG correlate-field values: empty/non-empty strings, zero/non-zero u8, u16, signed32, IPv4/IPv6 cluster addresses) on a real "
             "AggregationProcess (virtual time through the shift hook). Before every scan ReadyToSend must equal the model's (ready at once "
             "unless an inter-node flow that is neither egress-denied nor ingress-rejected; then only after both sides reported); a scan "
             "must hand over exactly the due and ready flow, with ReadyToSend and (correlated flows) AreCorrelatedFieldsFilled true; after "
             "both sides reported, and at export, every correlated field must be the non-empty value of either side (either one if both "
             "are non-empty); an uncorrelated flow is never exported, must be gone after MaxRetries+1 consecutive expiries, and while "
             "retried must stay held and scheduled with both deadlines in the future. Exhaustive: every word up to length 5 (quick) / 6 "
             "(thorough) x every combination; random words of length 7..30. Non-trivial = correlation-required flow with >= 2 records or a "
             "scan; distinct by the case tuple. In half of the cases the destination node lays its records out in another element order under the same template id.",
             COMMON_ASSUME + ["within one flow the correlation requirement and each node's metadata are constant (the statement's preconditions)",
                              "that an uncorrelated flow is retried exactly MaxRetries times is not in the statement and is not asserted"],
             "runtime monitor: correlation state-machine model + field-merge accept-sets, checked at every scan and after every record; bounded-exhaustive words"),
    "C13": P(True, (16, 16), 16, (1800, 7200), 1500, 500, "exploration",
             "three workloads on a real AggregationProcess under the race detector. lin (one evaluation = one short concurrent history): "
             "producers - exactly one goroutine per (flow, reporting node) stream, end times increasing in program order -, 1-2 scanners with "
             "an export-and-reset callback, 1-2 readers (GetRecords, GetNumFlows, GetExpiry), 0-2 walkers (ForAllRecordsDo reading the sums and "
             "resetting them), one time-shift goroutine, over 1-3 flows "
             "(correlated and single-stream), every ingested delta a distinct power of two; every call is recorded at the boundary (call / "
             "return timestamps from one monotonic clock) and the history, closed by quiescent reads of the final state, is checked with "
             "porcupine against a sequential model of the process (delta sums per node, readiness, retries, deadlines in virtual minutes, "
             "export resets). stress: 1..16 producers x 600-2000 ingests per flow over 8 single-stream flows with a concurrent scanner "
             "(export + reset), query loop and time-shift loop, GOMAXPROCS in {1,2,4,16}: per flow sum(ingested) == sum(exported) + held, no "
             "flow twice in one scan, exports <= deadlines passed, both slots of a single-stream flow equal. pool: Start with 1..16 workers "
             "fed 50..450 inter-node flows (one source and one destination record each, shuffled) through the channel, Stop, then key set, "
             "correlation, delta sums, merged names and end time compared with the sequential result. Non-trivial = >= 2 operations "
             "overlapping in time on one key (lin) / exports happened (stress) / run completed (pool); distinct by the (call, return) order. ALSO: Half of the lin histories have a goroutine holding the process lock (read-only walk with a slow callback) and one polling GetNumFlows. The sequential specification is nondeterministic and about thread-safety only (sums exact, only existing and ready flows exported, never twice at one virtual instant, existence consistent, removal only by a scan). Half of the lin histories and one producer step in 40 of the stress runs feed records without addresses (refused, no effect). Every GetRecords result of a lin history is retained and read again before the goroutine's next operation (concurrently with the others: race detector) and after the history: it must not have changed (query-result-changed-later); source-node records carry a service address that the destination node's records lack.",
             COMMON_ASSUME + ["each (flow, node) stream has one producer: the aggregation contract (per-node end times increase) must hold in every linearization",
                              "porcupine Unknown (60 s timeout) is inconclusive"],
             "porcupine linearizability check of recorded histories against a sequential model + conservation checker at quiescence; race detector; GOMAXPROCS sweep"),
    "C19": P(True, (8, 16), 16, (1200, 5400), 2000, 1000, "exploration",
             "one evaluation = one stream of 1..12 decoded IPFIX messages (templates, and data messages with 0..20 records; IPv4 and IPv6; PRNG "
             "field values incl. 0, 2^64-1, long multi-byte UTF-8 strings; random header fields and exporter address) handed to a real "
             "KafkaProducer (FlowType1 or FlowType2 convertor) through PublishIPFIXMessages, over a recording sarama.AsyncProducer (with and "
             "without success acknowledgements; 1 stream in 40 through sarama's own mock producer). Recorded input must be exactly one "
             "message per data record in record order, none for templates, on the configured topic; payload = 4-byte big-endian length + "
             "exactly that many bytes; a field-level protowire parser must read exactly the expected (field number -> value) set derived "
             "from flow.proto's numbering, the record's values and the message's export time / sequence number / observation domain / "
             "exporter address (proto3: zero values absent, nothing duplicated, nothing extra); the consumer-side DecodeAndPrintMsg "
             "(delimited mode, the schema cmd/consumer uses) must accept it and recover the same values. Non-trivial = a multi-record "
             "message or a template between data messages; distinct by stream. ALSO: One data message in 25 carries 60..460 records. The consumer-side decoder is one long-lived consumer per topic (replaced every 200 payloads): every payload must be recovered on its own whatever was decoded before.",
             COMMON_ASSUME + ["string values are valid UTF-8 (RFC 7012 string; proto3 refuses anything else)"],
             "runtime monitor: recording AsyncProducer + independent protowire field parser + consumer-side decoder; race detector"),
    "C20": P(True, (8, 16), 16, (1500, 7200), 30, 6, "exploration",
             "one evaluation = one history of {message arrival (template or data, 1..8 fields of all renderable types incl. octetArray, "
             "1..3 records), GET /records with count in {absent, 0, 1, 2, 5, 17, stored, 4095, 4096, 4097, 100000} x format in {absent, json, "
             "text}, POST /reset, invalid requests (negative / non-numeric / fractional / padded / overflowing count, unknown format, wrong "
             "method on both endpoints)} executed by an in-package driver (go test -overlay) against addIPFIXMessage and the two handlers, "
             "recorded as an event log and checked offline: every valid query must return exactly the last min(n, stored) entries of the "
             "sliding-window model (cap 4096) in arrival order - data messages identified through the unique id carried in one of their values, "
             "template messages through a header line if the rendering has one and otherwise by position -, in the right format; every invalid request must get a 4xx; reset must empty the store; every returned entry "
             "must show every field of every record by element name and value. One history in 13 makes 17000-19000 arrivals (cap exceeded "
             "4x); one in 13 is concurrent (writer + 4 readers + resetter under the race detector: contiguous ascending id ranges, no more "
             "than count, nothing from the future). Non-trivial = exceeds the cap or has a reset between queries; distinct by history. One string value in three carries a character special to some rendering layer (printf verbs, JSON/HTML escaping, quotes, multi-byte runes). One message in three repeats an information element within its records; each occurrence must be shown with its own value.",
             COMMON_ASSUME + ["an octetArray value may be rendered as a decimal list, hex (with or without 0x), base64 or raw bytes"],
             "runtime monitor: in-package recorder (go -overlay) + offline sliding-window model over unique message ids; race detector",
             extra_build=_c20_build),
    "C18": P(False, (16, 16), 16, (1500, 7200), 50, 40, "exploration",
             "one evaluation = one cell of the matrix, with certificates generated per run by the harness's factory (ECDSA P-256, controlled "
             "validity and SANs). TLS, real exporter vs real collector: server certificate {trusted, other CA, self-signed, expired, "
             "not-yet-valid, wrong SAN, no SAN} x ServerName {unset (address used), matching, mismatching}; client certificate {none, "
             "trusted, other CA, expired} x collector client-CA {unset, set} (judged by delivery at the collector). Versions: real exporter "
             "vs hand-made TLS server capped at 1.0/1.1/1.2/1.3 and hand-made TLS client capped at 1.0/1.1/1.2/1.3 vs real collector. "
             "Sequences on ONE collector instance: a trusted exporter session (kept open over several connection checks), then exporters configured "
             "with a CA that did not issue the collector's certificate / expecting another name, which must still be refused. "
             "Plaintext: plaintext exporter vs TLS and DTLS collectors (nothing may be delivered), TLS exporter vs plaintext peer (Init "
             "must fail and no IPFIX header may appear in clear in the peer's capture). DTLS, real exporter vs real collector: chain and "
             "validity failures and DNS ServerName mismatches judged; wrong/no SAN with an empty ServerName recorded but not judged. "
             "Negative cells must not establish a session / deliver; positive cells must establish one and deliver. The quick tier runs "
             "every cell on IPv4; thorough adds IPv6, 3 rounds of fresh certificates and the DTLS-exporter-vs-plaintext-peer cell. Every "
             "cell is non-trivial; distinct by cell. ALSO: Two more server-certificate kinds lie three minutes outside their validity period (issued when the cell runs). Cells where the exporter holds an expired / foreign certificate of its own and the collector asks for none are run but not judged. Two cells address the collector by host name (localhost:<port>) with no ServerName: a certificate naming only the loopback IP / collector.test must be refused, one naming localhost must work.",
             COMMON_ASSUME + ["'not delivered' is observed for 600 ms after the send attempt (normal delivery: < 5 ms)",
                              "pion/dtls skips name verification when ServerName is empty or an IP literal: those DTLS cells are recorded, not judged",
                              "crypto/tls and pion/dtls are trusted as documented"],
             "runtime monitor: expectation table over the certificate/name/version/plaintext matrix with real and hand-made peers"),
}

LEVEL_TEXT = {
    "C18": "Held on every cell of the stated matrix (exhaustive over the matrix, which is finite). Configuration-quantified property: the "
           "matrix is the input space.",
    "C20": "Held on every history explored, including histories several times over the cap and a concurrent phase. Unique ids make every "
           "response checkable exactly against the window model.",
    "C19": "Held on every stream explored, for both shipped proto schemas. The wire-level parser shares nothing with the generated "
           "protobuf code, so a wrong field number or a value written to the wrong field is visible.",
    "C13": "Held on every recorded history (linearizable), every stress run (conservation) and every pool run explored. Interleavings are "
           "sampled; unique power-of-two deltas make each read and each export identify exactly the ingests it contains, so a lost or "
           "double-counted update cannot hide.",
    "C07": "Held on every arrival order and multiplicity of source/destination records up to the stated length, for every flow type and "
           "rule-action pair, with expiry scans at every position.",
    "C06": "Held on every history explored: every combination of arrivals, time advances and failing callbacks to the stated depth over "
           "2-3 keys, random beyond. Callback failures are injected at every position a scan offers, which is what the suite never does.",
    "C05": "Held on every history explored, with the full aggregated record compared after every single operation. The aggregation "
           "state is driven only by the record/reset/expiry sequence, so random histories under the stated contract are the right level.",
    "C14": "Held on every session explored; timings of application sends relative to refresh ticks, connection checks, peer close and "
           "concurrent Close calls are sampled with different pacing per session, under the race detector.",
    "C12": "Held on every run explored. Schedules are sampled (client counts, pacing, GOMAXPROCS, Stop timing), not enumerated; unique "
           "message ids make the exactly-once and order check exact on each recorded run.",
    "C01": "Held on every case explored on each of the 8 transport configurations, with both processes running their real goroutines "
           "under the race detector. The property is quantified over inputs and configurations; this is direct observation of the API "
           "boundary the user relies on.",
    "C11": "Held on every (stream, segmentation) explored, including every 1- and 2-cut of short streams and an invalid message at every "
           "position. Segmentation is a scheduling dimension the suite never varies; driving it from the client socket is the strongest "
           "observation available without hooking the reader.",
    "C10": "Held on every schedule explored, with the placement of timer firing, the callback's clock read and its completion relative "
           "to refreshes/replacements/invalidations enumerated exhaustively to a bounded depth (the clock is under the harness's control, "
           "so schedules are inputs here, not luck), and real concurrency between a callback and an operation under the race detector.",
    "C17": "Held on every template shape and value vector explored, including every placement of up to 3 unknown fields among up to 4 "
           "known ones. The property is input/configuration-quantified and deterministic, so differential exploration is the right level.",
    "C04": "Held on every history explored, exhaustively up to the stated length over 3 keys and randomly beyond. The state that matters "
           "(which layout is stored under which key) is small, so bounded-exhaustive histories reach every reachable table configuration "
           "over the 3 keys.",
    "C03": "Held on every input explored: no panic, no call over the CPU/heap budget, every delivered message exactly what the bytes define. "
           "Totality over all byte strings cannot be enumerated; hostile-input exploration with a crash/hang monitor and an independent "
           "reference decoder is what this family offers, and the input classes are aimed at the decoder's length arithmetic.",
    "C08": "Held on every session explored, including sessions that cross the 2^32 wrap. Exploration over random histories is the right "
           "level: the counter is a function of the send history only.",
    "C09": "Held on every history explored: nothing but the accepted messages ever reached the peer, and every refusal was reported as an "
           "error. Byte-level observation at the socket is what settles 'writes nothing to the connection'.",
    "C02": "Held on every message captured. The oracle shares no code with the library, so a symmetric encode/decode error (invisible to "
           "C01) is visible here. Exploration over PRNG templates/values is the right level for an input-quantified wire-format property.",
    "C16": "Held on every operation sequence explored (random, well-formed order), with the invariants evaluated after every single "
           "operation rather than at the end. Exploration is the right level: the builders are deterministic, sequential code whose state "
           "space is driven entirely by the operation sequence.",
    "C15": "Held on every value explored: exhaustive for 8/16-bit types, booleans and the string/octetArray length boundaries, sampled "
           "(boundary pools + PRNG) for wider types. A differential oracle with an independent codec is the right level for a pure "
           "function of (type, value): any asymmetric or symmetric codec error shows up as a byte or value mismatch.",
}
LEVEL_NOTE = {
    "*": "Trusts refipfix (own RFC 7011 codec, stdlib only), the Go runtime's bounds checks surfacing as panics, and the generator's coverage as reported in the evidence.",
}
NOT_APPLICABLE = {}
PROPS["C20"]["checker_without_race"] = True

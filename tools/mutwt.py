#!/usr/bin/env python3
"""tools/mutwt.py <check ids,comma> <file under the repo> <old> <new> [tier] — like mut.py, but the one-spot mutation is
applied on a scratch worktree (VERIF_REPO), never in /repo: safe while other runs build from /repo."""
import subprocess, sys, os, signal, tempfile
import os as _os
VERIF_HOME = _os.environ.get("VERIF_HOME") or _os.path.dirname(_os.path.dirname(_os.path.abspath(__file__)))
ids, path, old, new = sys.argv[1], sys.argv[2], sys.argv[3], sys.argv[4]
tier = sys.argv[5] if len(sys.argv) > 5 else "quick"
env = dict(os.environ, GOFLAGS="-mod=mod", GOPROXY="off", GOSUMDB="off", GOTOOLCHAIN="local")
wt = tempfile.mkdtemp(prefix="mutwt-", dir="/tmp/wt")
os.rmdir(wt)
subprocess.run(["git", "-C", "/repo", "worktree", "add", "-q", wt, "HEAD"], check=True)
try:
    p = os.path.join(wt, path)
    s = open(p).read()
    if s.count(old) != 1:
        print("pattern occurs %d times" % s.count(old)); sys.exit(2)
    open(p, "w").write(s.replace(old, new))
    b = subprocess.run(["go", "build", "./..."], cwd=wt, env=env)
    if b.returncode != 0:
        print("MUTANT DOES NOT BUILD"); sys.exit(2)
    for i in ids.split(","):
        ev = dict(env, VERIF_REPO=wt, VERIF_EVIDENCE_DIR=wt + "-ev", VERIF_REPLAY_DIR=wt + "-rp")
        pr = subprocess.Popen([VERIF_HOME + "/check", i, tier], env=ev, stdout=subprocess.PIPE, text=True, start_new_session=True)
        try:
            so, _ = pr.communicate(timeout=int(os.environ.get("MUT_TIMEOUT", "600")))
        except subprocess.TimeoutExpired:
            os.killpg(pr.pid, signal.SIGKILL)
            so, _ = pr.communicate()
            print("== %s TIMEOUT (killed)" % i)
        out = (so or "").strip().splitlines()
        v = [l for l in out if l.startswith("  [")]
        print("== %s exit=%s  %s" % (i, pr.returncode, "CAUGHT" if pr.returncode == 1 else "MISSED"))
        for l in v[:3]: print("   ", l[:240])
finally:
    subprocess.run(["git", "-C", "/repo", "worktree", "remove", "--force", wt])
    subprocess.run(["rm", "-rf", wt + "-ev", wt + "-rp"])

#!/usr/bin/env python3
"""tools/benign_matrix.py <tier> [names...]: run, for every property-PRESERVING change under /verif/benign/<Cxx-pN>/ (patch.diff,
note.md; written by independent sub-agents who saw only the property text), the check of its property plus the checks mapped
to the files it touches, on a scratch worktree (VERIF_REPO). Anything but exit 0 is an ALARM to be examined: either the check
demands more than the property states (fix the check) or the change is not property-preserving after all (say why in
meta.json "verdict"). Writes /verif/benign/RESULTS.md when run over all."""
import os, re, subprocess, sys, json, concurrent.futures as cf
import os as _os
VERIF_HOME = _os.environ.get("VERIF_HOME") or _os.path.dirname(_os.path.dirname(_os.path.abspath(__file__)))
sys.path.insert(0, os.path.dirname(__file__))
FILES = {
    "pkg/collector/process.go": ["C03", "C04", "C17", "C10", "C11", "C01", "C12"],
    "pkg/collector/tcp.go": ["C11", "C12", "C18", "C01"],
    "pkg/collector/udp.go": ["C12", "C01", "C18", "C10"],
    "pkg/collector/clock.go": ["C10"],
    "pkg/exporter/process.go": ["C09", "C08", "C02", "C14", "C18", "C01"],
    "pkg/exporter/msg.go": ["C02", "C08", "C09", "C14"],
    "pkg/entities/ie.go": ["C15", "C02", "C01", "C09", "C19", "C03", "C04", "C17", "C11"],
    "pkg/entities/ie_value.go": ["C15", "C16", "C02", "C05"],
    "pkg/entities/record.go": ["C16", "C15", "C09", "C02", "C07"],
    "pkg/entities/set.go": ["C16", "C02", "C01"],
    "pkg/entities/message.go": ["C02", "C08", "C01"],
    "pkg/intermediate/aggregate.go": ["C05", "C06", "C07", "C13"],
    "pkg/intermediate/types.go": ["C05", "C06", "C07", "C13"],
    "pkg/intermediate/priorityqueue.go": ["C06", "C13"],
    "pkg/intermediate/worker.go": ["C13"],
    "pkg/kafka/producer/kafka.go": ["C19"],
    "pkg/registry/registry.go": ["C17", "C01", "C04"],
    "cmd/collector/collector.go": ["C20"],
}
tier, d = sys.argv[1], VERIF_HOME + "/benign"
names = sys.argv[2:] or sorted(n for n in os.listdir(d) if os.path.exists(os.path.join(d, n, "patch.diff")))
def one(n):
    patch = os.path.join(d, n, "patch.diff")
    touched = re.findall(r"^\+\+\+ b/(\S+)", open(patch).read(), re.M)
    checks = []
    m = re.match(r"C(\d\d)", n)
    if m: checks.append("C" + m.group(1))
    for f in touched:
        for c in FILES.get(f, []) + (["C19"] if "kafka" in f else []):
            if c not in checks: checks.append(c)
    only = os.environ.get("BEN_ONLY")
    if only:
        checks = [c for c in checks if c in only.split(",")]
        if not checks:
            return n, ""
    r = subprocess.run([VERIF_HOME + "/tools/benign_try.sh", patch, n, tier] + checks, stdout=subprocess.PIPE, stderr=subprocess.STDOUT, text=True)
    return n, r.stdout
rows = []
with cf.ThreadPoolExecutor(int(os.environ.get("BEN_PAR", "3"))) as ex:
    for n, out in ex.map(one, names):
        print(out, flush=True)
        res = re.findall(r"^== \S+ vs (C\d\d) \w+: exit=(\d+)", out, re.M)
        exp = {}
        mp = os.path.join(d, n, "meta.json")
        if os.path.exists(mp):
            exp = json.load(open(mp)).get("expected_alarms", {})
        rows.append((n, ", ".join("%s %s" % (c, "silent" if e == "0" else ("alarm, expected: " + exp[c]) if c in exp else "ALARM(exit %s)" % e) for c, e in res)))
if not sys.argv[2:]:
    with open(os.path.join(d, "RESULTS.md" if not os.environ.get("BEN_ONLY") else "RESULTS-" + os.environ.get("BEN_TAG", "partial") + ".md"), "w") as f:
        f.write("# Property-preserving changes (independent sub-agents) and the %s checks run against them\n\n" % tier)
        f.write("Every check listed must stay silent (exit 0). See DESIGN.md 8.8.\n\n| change | checks |\n|---|---|\n")
        for r in rows:
            f.write("| %s | %s |\n" % r)

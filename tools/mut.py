#!/usr/bin/env python3
"""tools/mut.py <check ids,comma> <file under /repo> <old> <new>  — apply a one-spot mutation to /repo,
run the quick checks, restore the file. For validating monitors during development."""
import subprocess, sys, os
import os as _os
VERIF_HOME = _os.environ.get("VERIF_HOME") or _os.path.dirname(_os.path.dirname(_os.path.abspath(__file__)))
ids, path, old, new = sys.argv[1], sys.argv[2], sys.argv[3], sys.argv[4]
p = os.path.join("/repo", path)
s = open(p).read()
if s.count(old) != 1:
    print("pattern occurs %d times" % s.count(old)); sys.exit(2)
open(p, "w").write(s.replace(old, new))
try:
    b = subprocess.run(["go", "build", "./..."], cwd="/repo", env=dict(os.environ, GOFLAGS="-mod=mod", GOPROXY="off", GOSUMDB="off", GOTOOLCHAIN="local"))
    if b.returncode != 0:
        print("MUTANT DOES NOT BUILD")
    else:
        for i in ids.split(","):
            import signal
            pr = subprocess.Popen([VERIF_HOME + "/check", i, "quick"], stdout=subprocess.PIPE, text=True, start_new_session=True)
            try:
                so, _ = pr.communicate(timeout=int(os.environ.get("MUT_TIMEOUT", "420")))
            except subprocess.TimeoutExpired:
                os.killpg(pr.pid, signal.SIGKILL)
                so, _ = pr.communicate()
                print("== %s TIMEOUT (killed)" % i)
            class R: pass
            r = R(); r.returncode = pr.returncode; r.stdout = so or ""
            out = r.stdout.strip().splitlines()
            v = [l for l in out if l.startswith("VIOLATION") or l.startswith("  [")]
            print("== %s exit=%d  %s" % (i, r.returncode, "CAUGHT" if r.returncode == 1 else "MISSED"))
            for l in v[:4]: print("   ", l[:260])
finally:
    open(p, "w").write(s)
    subprocess.run(["git", "-C", "/repo", "status", "--short"])

#!/usr/bin/env python3
"""tools/seed_matrix.py [seed names...]  — runs, for every seeded change under /verif/seeded, the quick
check of the property it targets (on a scratch worktree with the patch applied, VERIF_REPO=<worktree>)
and writes /verif/seeded/RESULTS.md. Extra checks per seed can be listed in meta.json "also_run"."""
import json, os, re, subprocess, sys, signal
import os as _os
VERIF_HOME = _os.environ.get("VERIF_HOME") or _os.path.dirname(_os.path.dirname(_os.path.abspath(__file__)))

SE = VERIF_HOME + "/seeded"
names = sys.argv[1:] or sorted(d for d in os.listdir(SE) if os.path.isdir(os.path.join(SE, d)))
env = dict(os.environ, GOFLAGS="-mod=mod", GOPROXY="off", GOSUMDB="off", GOTOOLCHAIN="local")
rows = []
for name in names:
    meta = json.load(open(os.path.join(SE, name, "meta.json")))
    prop = meta["property"]
    wt = "/tmp/wt/m-" + name
    subprocess.run(["git", "-C", "/repo", "worktree", "remove", "--force", wt], stdout=subprocess.DEVNULL, stderr=subprocess.DEVNULL)
    subprocess.run(["git", "-C", "/repo", "worktree", "add", "-q", wt, "HEAD"], check=True)
    try:
        r = subprocess.run(["git", "-C", wt, "apply", os.path.join(SE, name, "patch.diff")])
        if r.returncode != 0:
            rows.append((name, prop, "patch no longer applies", ""))
            continue
        res = {}
        for cid in [prop] + [c for c in meta.get("also_run", []) if c != prop]:
            ev = dict(env, VERIF_REPO=wt, VERIF_EVIDENCE_DIR="/tmp/wt/ev", VERIF_REPLAY_DIR="/tmp/wt/rp-m")
            p = subprocess.Popen([VERIF_HOME + "/check", cid, "quick"], env=ev, stdout=subprocess.PIPE, text=True, start_new_session=True)
            try:
                so, _ = p.communicate(timeout=1200)
            except subprocess.TimeoutExpired:
                os.killpg(p.pid, signal.SIGKILL)
                so, _ = p.communicate()
            classes = sorted(set(re.findall(r"^  \[([^\]]+)\]", so or "", re.M)))
            res[cid] = ("caught" if p.returncode == 1 else "MISSED" if p.returncode == 0 else "exit %s" % p.returncode, classes[:3])
            print(name, cid, res[cid], flush=True)
        meta["checks_quick_latest"] = {k: {"verdict": v[0], "classes": v[1]} for k, v in res.items()}
        json.dump(meta, open(os.path.join(SE, name, "meta.json"), "w"), indent=1)
        rows.append((name, prop, meta.get("summary", "")[:220].replace("\n", " ").replace("|", "/"), "; ".join("%s: %s (%s)" % (k, v[0], ", ".join(v[1])) for k, v in res.items())))
    finally:
        subprocess.run(["git", "-C", "/repo", "worktree", "remove", "--force", wt], stdout=subprocess.DEVNULL, stderr=subprocess.DEVNULL)
        subprocess.run(["rm", "-rf", "/tmp/wt/rp-m"])
if not sys.argv[1:]:
    with open(os.path.join(SE, "RESULTS.md"), "w") as f:
        f.write("# Seeded changes (written by independent sub-agents) and the quick checks run against them\n\n")
        f.write("| seed | property | change (agent's summary, truncated) | quick checks |\n|---|---|---|---|\n")
        for r in rows:
            f.write("| %s | %s | %s | %s |\n" % r)
    print("wrote", os.path.join(SE, "RESULTS.md"))

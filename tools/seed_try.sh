#!/bin/bash
VERIF_HOME=${VERIF_HOME:-$(cd "$(dirname "$0")/.." && pwd)}
# tools/seed_try.sh <seed name> <check ids...> : run quick checks against a seeded change on a scratch worktree
name=$1; shift
wt=/tmp/wt/try-$name
git -C /repo worktree remove --force $wt >/dev/null 2>&1
git -C /repo worktree add -q $wt HEAD && git -C $wt apply $VERIF_HOME/seeded/$name/patch.diff || exit 2
for c in "$@"; do
  VERIF_REPO=$wt VERIF_EVIDENCE_DIR=/tmp/wt/ev VERIF_REPLAY_DIR=/tmp/wt/rp-try timeout 900 $VERIF_HOME/check $c quick > /tmp/wt/try-$name-$c.out 2>&1
  rc=$?
  echo "== $name vs $c: exit=$rc $( [ $rc = 1 ] && echo CAUGHT || echo MISSED )"
  grep -E "^  \[" /tmp/wt/try-$name-$c.out | sed 's/\] .*/]/' | sort | uniq -c | sort -rn | head -4
done
git -C /repo worktree remove --force $wt; rm -rf /tmp/wt/rp-try

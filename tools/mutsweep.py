#!/usr/bin/env python3
"""tools/mutsweep.py <worker id> <nworkers> [max per file]

Systematic one-token mutants of the anchor files, to find blind spots of the monitors. For every mutant
(applied on a scratch worktree, never in /repo): it must build and pass the 103 stable tests (otherwise it
is not a "change that still passes the existing tests" and is skipped); then the quick checks mapped to the
file run (VERIF_REPO=<worktree>) until one reports a violation. Results: /tmp/wt/mutsweep/results.<worker>.jsonl
"""
import json, os, random, re, signal, subprocess, sys
import os as _os
VERIF_HOME = _os.environ.get("VERIF_HOME") or _os.path.dirname(_os.path.dirname(_os.path.abspath(__file__)))

wid, nw = int(sys.argv[1]), int(sys.argv[2])
maxper = int(sys.argv[3]) if len(sys.argv) > 3 else 30
env = dict(os.environ, GOFLAGS="-mod=mod", GOPROXY="off", GOSUMDB="off", GOTOOLCHAIN="local")
FILES = {
    "pkg/collector/process.go": ["C03", "C04", "C17", "C10", "C11", "C01"],
    "pkg/collector/tcp.go": ["C11", "C12", "C18"],
    "pkg/collector/udp.go": ["C12", "C01", "C18"],
    "pkg/exporter/process.go": ["C09", "C08", "C02", "C14", "C18"],
    "pkg/exporter/msg.go": ["C02", "C08", "C09"],
    "pkg/entities/ie.go": ["C15", "C02", "C01"],
    "pkg/entities/ie_value.go": ["C15", "C16", "C02"],
    "pkg/entities/record.go": ["C16", "C15", "C09", "C02"],
    "pkg/entities/set.go": ["C16", "C02"],
    "pkg/entities/message.go": ["C02", "C08", "C01"],
    "pkg/intermediate/aggregate.go": ["C05", "C06", "C07", "C13"],
    "pkg/intermediate/priorityqueue.go": ["C06", "C13"],
    "pkg/intermediate/worker.go": ["C13"],
    "pkg/kafka/producer/kafka.go": ["C19"],
    "pkg/kafka/producer/convertor/test/flowtype1.go": ["C19"],
    "pkg/kafka/producer/convertor/test/flowtype2.go": ["C19"],
    "pkg/registry/registry.go": ["C17", "C01", "C04"],
    "cmd/collector/collector.go": ["C20"],
}
OPS = [
    (r"(?<![<>=!])<=(?!=)", "<"), (r"(?<![<>=!-])<(?![<=-])", "<="), (r"(?<![<>=!-])>=(?!=)", ">"), (r"(?<![<>=!-])>(?![>=])", ">="),
    (r"==", "!="), (r"!=", "=="), (r"&&", "||"), (r"\|\|", "&&"),
    (r"\b255\b", "254"), (r"\b255\b", "256"), (r"\b65535\b", "65534"), (r"\+ 1\b", "+ 2"), (r"- 1\b", "- 2"), (r"\b0\b", "1"), (r"\b1\b", "0"),
    (r"\btrue\b", "false"), (r"\bfalse\b", "true"),
]
DELETE = re.compile(r"^\s*(defer\s+)?[\w.\[\]()*&]+\.(Lock|Unlock|RLock|RUnlock|Stop|Reset|Done|Add|Close)\(.*\)\s*$|^\s*(delete|heap\.(Fix|Push|Init))\(.*\)\s*$|^\s*(continue|break)\s*$|^\s*[\w.\[\]]+\s*(\+\+|--)\s*$|^\s*[\w.\[\]]+\s*[+-]?=\s*[^=].*$")

def mutants(path, text):
    lines = text.split("\n")
    out = []
    infunc = False
    for i, ln in enumerate(lines):
        st = ln.strip()
        if st.startswith("func "):
            infunc = True
        if not infunc or st.startswith("//") or "klog." in ln or st.startswith("import") or st.startswith("package") or '"' in ln and "Errorf" in ln:
            continue
        code = ln.split("//")[0]
        for pat, rep in OPS:
            for m in re.finditer(pat, code):
                # skip matches inside string literals
                if code[:m.start()].count('"') % 2 == 1:
                    continue
                new = code[:m.start()] + rep + code[m.end():]
                out.append((i, "%s -> %s" % (m.group(0), rep), new))
        if DELETE.match(code) and not st.startswith("return") and ":=" not in code:
            out.append((i, "delete statement", re.match(r"^\s*", code).group(0) + "_ = 0"))
    return out

os.makedirs("/tmp/wt/mutsweep", exist_ok=True)
res = open("/tmp/wt/mutsweep/results.%d.jsonl" % wid, "a")
wt = "/tmp/wt/ms-%d" % wid
subprocess.run(["git", "-C", "/repo", "worktree", "remove", "--force", wt], stdout=subprocess.DEVNULL, stderr=subprocess.DEVNULL)
subprocess.run(["git", "-C", "/repo", "worktree", "add", "-q", wt, "HEAD"], check=True)
rng = random.Random(20260928)
todo = []
for f, checks in FILES.items():
    text = open(os.path.join("/repo", f)).read()
    ms = mutants(f, text)
    rng.shuffle(ms)
    for m in ms[:maxper]:
        todo.append((f, checks, text, m))
done = set()
import glob
for fn in glob.glob("/tmp/wt/mutsweep/results.*.jsonl"):
    for l in open(fn):
        try:
            r = json.loads(l)
            done.add((r["file"], r["line"], r["mutation"], r["new"]))
        except Exception:
            pass
todo = [t for t in todo if (t[0], t[3][0] + 1, t[3][1], t[3][2].strip()) not in done]
todo = [t for j, t in enumerate(todo) if j % nw == wid]
print("worker %d: %d mutants" % (wid, len(todo)), flush=True)
for (f, checks, text, (ln, what, newline)) in todo:
    lines = text.split("\n")
    old = lines[ln]
    lines[ln] = newline
    p = os.path.join(wt, f)
    open(p, "w").write("\n".join(lines))
    rec = {"file": f, "line": ln + 1, "mutation": what, "old": old.strip(), "new": newline.strip()}
    try:
        b = subprocess.run(["go", "build", "./..."], cwd=wt, env=env, stdout=subprocess.PIPE, stderr=subprocess.STDOUT, text=True)
        if b.returncode != 0:
            rec["status"] = "does-not-build"
            continue
        st = subprocess.run([VERIF_HOME + "/tools/run_stable.py"], env=dict(env, REPO_DIR=wt), stdout=subprocess.PIPE, text=True, timeout=900)
        if "103/103" not in st.stdout:
            rec["status"] = "killed-by-existing-tests"
            continue
        rec["status"] = "survives-existing-tests"
        rec["checks"] = {}
        for cid in checks:
            ev = dict(env, VERIF_REPO=wt, VERIF_EVIDENCE_DIR="/tmp/wt/ev-ms%d" % wid, VERIF_REPLAY_DIR="/tmp/wt/rp-ms%d" % wid, VERIF_PAR="6")
            pr = subprocess.Popen([VERIF_HOME + "/check", cid, "quick"], env=ev, stdout=subprocess.PIPE, text=True, start_new_session=True)
            try:
                so, _ = pr.communicate(timeout=600)
            except subprocess.TimeoutExpired:
                os.killpg(pr.pid, signal.SIGKILL)
                so, _ = pr.communicate()
                rec["checks"][cid] = "timeout"
                continue
            classes = sorted(set(re.findall(r"^  \[([^\]]+)\]", so or "", re.M)))[:3]
            rec["checks"][cid] = {"exit": pr.returncode, "classes": classes}
            if pr.returncode == 1:
                rec["caught_by"] = cid
                break
        if "caught_by" not in rec:
            rec["status"] = "MISSED"
    except Exception as e:  # noqa
        rec["status"] = "error: %s" % e
    finally:
        open(p, "w").write(text)
        res.write(json.dumps(rec) + "\n")
        res.flush()
        subprocess.run(["rm", "-rf", "/tmp/wt/rp-ms%d" % wid])
        print(rec.get("status"), rec.get("caught_by", ""), f, ln + 1, what, flush=True)
subprocess.run(["git", "-C", "/repo", "worktree", "remove", "--force", wt])

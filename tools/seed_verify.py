#!/usr/bin/env python3
"""tools/seed_verify.py <out-dir of a seeding agent> <seed name> [extra check ids,comma]

Independently confirms a seeded change and runs the checks against it, on a fresh scratch
worktree of /repo (never in /repo itself):
  1. demo passes on the unchanged tree;  2. patch applies, tree builds, 103 stable tests pass;
  3. demo fails with the patch;          4. ./check <property> quick (VERIF_REPO=worktree) + extra checks.
Writes /verif/seeded/<seed name>/{patch.diff, demo_test.go, meta.json} and removes the worktree.
"""
import json, os, re, shutil, subprocess, sys
import os as _os
VERIF_HOME = _os.environ.get("VERIF_HOME") or _os.path.dirname(_os.path.dirname(_os.path.abspath(__file__)))

out, name = sys.argv[1], sys.argv[2]
extra = sys.argv[3].split(",") if len(sys.argv) > 3 and sys.argv[3] else []
env = dict(os.environ, GOFLAGS="-mod=mod", GOPROXY="off", GOSUMDB="off", GOTOOLCHAIN="local")
meta = json.load(open(os.path.join(out, "meta.json")))
prop = meta["property"]
wt = "/tmp/wt/v-" + name
subprocess.run(["git", "-C", "/repo", "worktree", "remove", "--force", wt], stdout=subprocess.DEVNULL, stderr=subprocess.DEVNULL)
subprocess.run(["git", "-C", "/repo", "worktree", "add", "-q", wt, "HEAD"], check=True)
res = {"property": prop}
try:
    pkgdir = meta["demo_package_dir"].strip("./")
    demo_dst = os.path.join(wt, pkgdir, "zz_seed_demo_test.go")
    shutil.copy(os.path.join(out, "demo_test.go"), demo_dst)
    src = open(demo_dst).read()
    tests = re.findall(r"^func (Test\w+)\(", src, re.M)
    run = ["go", "test", "-vet=off", "-count=1", "-run", "^(" + "|".join(tests) + ")$", "./" + pkgdir]
    def demo():
        r = subprocess.run(run, cwd=wt, env=env, stdout=subprocess.PIPE, stderr=subprocess.STDOUT, text=True, timeout=900)
        return r.returncode == 0, r.stdout[-1500:]
    ok, o = demo()
    res["demo_passes_without_patch"] = ok
    if not ok:
        print("demo FAILS on the unchanged tree:\n" + o)
    r = subprocess.run(["git", "-C", wt, "apply", os.path.join(out, "patch.diff")], stdout=subprocess.PIPE, stderr=subprocess.STDOUT, text=True)
    res["patch_applies"] = r.returncode == 0
    if r.returncode != 0:
        print("patch does not apply:", r.stdout)
    b = subprocess.run(["go", "build", "./..."], cwd=wt, env=env, stdout=subprocess.PIPE, stderr=subprocess.STDOUT, text=True)
    res["builds"] = b.returncode == 0
    ok2, o2 = demo()
    res["demo_fails_with_patch"] = not ok2
    os.remove(demo_dst)
    st = subprocess.run([VERIF_HOME + "/tools/run_stable.py"], env=dict(env, REPO_DIR=wt), stdout=subprocess.PIPE, text=True)
    res["stable_suite"] = st.stdout.strip().splitlines()[0] if st.stdout.strip() else "?"
    checks = {}
    for cid in [prop] + [e for e in extra if e != prop]:
        ev = dict(env, VERIF_REPO=wt, VERIF_EVIDENCE_DIR="/tmp/wt/ev", VERIF_REPLAY_DIR="/tmp/wt/rp-" + name)
        p = subprocess.Popen([VERIF_HOME + "/check", cid, "quick"], env=ev, stdout=subprocess.PIPE, text=True, start_new_session=True)
        try:
            so, _ = p.communicate(timeout=900)
        except subprocess.TimeoutExpired:
            import signal
            os.killpg(p.pid, signal.SIGKILL)
            so, _ = p.communicate()
        classes = sorted(set(re.findall(r"^  \[([^\]]+)\]", so or "", re.M)))
        checks[cid] = {"exit": p.returncode, "verdict": "caught" if p.returncode == 1 else ("missed" if p.returncode == 0 else "exit %s" % p.returncode), "classes": classes[:8]}
        print("  %s: %s %s" % (cid, checks[cid]["verdict"], classes[:4]))
    res["checks_quick"] = checks
    dst = os.path.join(VERIF_HOME + "/seeded", name)
    os.makedirs(dst, exist_ok=True)
    shutil.copy(os.path.join(out, "patch.diff"), dst)
    shutil.copy(os.path.join(out, "demo_test.go"), dst)
    meta["confirmed_by_framework_author"] = res
    meta["what_was_run"] = "tools/seed_verify.py on a fresh worktree of /repo HEAD: demo without patch, git apply, go build ./..., 103 stable tests, demo with patch, ./check <id> quick with VERIF_REPO=<worktree>"
    json.dump(meta, open(os.path.join(dst, "meta.json"), "w"), indent=1)
    print(name, json.dumps({k: v for k, v in res.items() if k != "checks_quick"}))
finally:
    subprocess.run(["git", "-C", "/repo", "worktree", "remove", "--force", wt], stdout=subprocess.DEVNULL, stderr=subprocess.DEVNULL)
    shutil.rmtree("/tmp/wt/rp-" + name, ignore_errors=True)

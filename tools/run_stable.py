#!/usr/bin/env python3
"""Runs the 103 stable baseline tests (by name, guard OFF) and reports pass/fail counts.
Much faster than the full baseline command, whose TLS tests hang until the package timeout."""
import json, os, subprocess, sys, collections
b = json.load(open("/root/.vp/BASELINE.json"))
pk = collections.defaultdict(set)
for t in b["stable_pass"]:
    pkg, name = t.split("::")
    pk[pkg].add(name.split("/")[0])
env = dict(os.environ, GOFLAGS="-mod=mod", GOPROXY="off", GOSUMDB="off", GOTOOLCHAIN="local")
tags = sys.argv[1:]  # e.g. -tags verif
passed, failed = set(), set()
for pkg, names in sorted(pk.items()):
    rel = "./" + pkg.split("github.com/vmware/go-ipfix/")[1]
    cmd = ["go", "test"] + tags + ["-vet=off", "-count=1", "-json", "-timeout", "10m", "-run", "^(" + "|".join(sorted(names)) + ")$", rel]
    r = subprocess.run(cmd, cwd=os.environ.get("REPO_DIR", "/repo"), env=env, stdout=subprocess.PIPE, stderr=subprocess.STDOUT, text=True)
    for ln in r.stdout.splitlines():
        try:
            e = json.loads(ln)
        except Exception:
            continue
        if e.get("Test") and e.get("Action") in ("pass", "fail"):
            (passed if e["Action"] == "pass" else failed).add(pkg + "::" + e["Test"])
want = set(b["stable_pass"])
missing = sorted(want - passed)
print("stable baseline tests: %d/%d passed" % (len(want & passed), len(want)))
for m in missing:
    print("  NOT PASSED:", m)
sys.exit(1 if missing else 0)

#!/bin/bash
VERIF_HOME=${VERIF_HOME:-$(cd "$(dirname "$0")/.." && pwd)}
# tools/benign_try.sh <patch file> <tag> <tier> <check ids...> : run checks against a property-PRESERVING change on a
# scratch worktree; every exit other than 0 is a false alarm (or an inconclusive run) to be looked at.
patch=$1; tag=$2; tier=$3; shift 3
wt=/tmp/wt/ben-$tag; rm -rf /tmp/wt/rp-ben-$tag
git -C /repo worktree remove --force $wt >/dev/null 2>&1
git -C /repo worktree add -q $wt HEAD && git -C $wt apply $patch || exit 2
for c in "$@"; do
  VERIF_REPO=$wt VERIF_EVIDENCE_DIR=/tmp/wt/ev-ben-$tag VERIF_REPLAY_DIR=/tmp/wt/rp-ben-$tag timeout 3000 $VERIF_HOME/check $c $tier > /tmp/wt/ben-$tag-$c.out 2>&1
  rc=$?
  echo "== $tag vs $c $tier: exit=$rc $( [ $rc = 0 ] && echo silent || echo ALARM )"
  grep -E "^  \[|^HARNESS" /tmp/wt/ben-$tag-$c.out | sed 's/\] .*/]/' | sort | uniq -c | sort -rn | head -6
done
git -C /repo worktree remove --force $wt

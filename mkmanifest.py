#!/usr/bin/env python3
"""Regenerates MANIFEST.json from check_props.py (run after changing the table)."""
import json, os, subprocess, sys
sys.path.insert(0, os.path.dirname(os.path.abspath(__file__)))
from check_props import PROPS, LEVEL_TEXT, LEVEL_NOTE, NOT_APPLICABLE

ids = ["C%02d" % i for i in range(1, 21)]
hooks = subprocess.run(["git", "-C", "/repo", "log", "--format=%H %s"], stdout=subprocess.PIPE, text=True).stdout.splitlines()
hook_commits = [l.split()[0] for l in hooks if l.split(" ", 1)[1].startswith("verif:")]
checks = []
for i in ids:
    if i not in PROPS:
        continue
    c = PROPS[i]
    checks.append(dict(
        property_id=i,
        quick_cmd="./check %s quick" % i,
        thorough_cmd="./check %s thorough" % i,
        evidence_file="evidence/%s.json" % i,
        replay_cmd_template="./check %s --replay {path}" % i,
        engine="go-harness",
        level_claimed=dict(category=c["level"], text=LEVEL_TEXT[i], design_ref="DESIGN.md section 3, %s" % i),
        level_note=LEVEL_NOTE.get(i, LEVEL_NOTE["*"]),
        technique=c["technique"],
    ))
na = [dict(property_id=i, reason=NOT_APPLICABLE.get(i, "check not built yet (build in progress); not claimed")) for i in ids if i not in PROPS]
m = dict(
    version=1,
    setup_cmd="./check --setup",
    hooks=dict(guard="verif", enable="go build -tags verif (harness module with `replace github.com/vmware/go-ipfix => /repo`)",
               baseline_off_cmd="cd /repo && GOFLAGS=-mod=mod GOPROXY=off GOSUMDB=off go test -vet=off -count=1 -timeout 25m ./...",
               source_commits=hook_commits, add_only=True),
    engines=[dict(name="go-harness", path="harness/", serves_properties=[c["property_id"] for c in checks],
                  kind_free_text="Go check binaries (one per property) run as child processes by the python front-end ./check: "
                                 "runtime monitors, reference oracles, race detector, porcupine")],
    checks=checks,
    notes="Runtime monitoring only. Verdict lines: VIOLATION / KNOWN-FINDING / INCONCLUSIVE (exit 2). See DESIGN.md.",
    not_applicable=na,
)
json.dump(m, open(os.path.join(os.path.dirname(os.path.abspath(__file__)), "MANIFEST.json"), "w"), indent=1)
print("MANIFEST.json: %d checks, %d not_applicable" % (len(checks), len(na)))
